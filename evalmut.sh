#!/bin/bash
# evalmut.sh <property-id> <patch.diff> [seeds...] — applies a seeded breaking change to /repo, runs the
# property's quick check for each seed, reverts the change. Prints CAUGHT / MISSED per seed.
id=$1; patch=$2; shift 2; seeds=${@:-1 2 3}
cd /verif
git -C /repo diff --quiet || { echo "/repo has uncommitted changes"; exit 2; }
git -C /repo apply "$patch" || { echo "patch does not apply"; exit 2; }
res=""
for s in $seeds; do
  VERIF_SEED=$s ./check "$id" ${TIER:-quick} > /tmp/evalmut_$id.log 2>&1; c=$?
  sig=$(grep -m1 "^violation" /tmp/evalmut_$id.log | cut -c1-160)
  if [ $c = 1 ]; then echo "seed $s: CAUGHT ($sig)"; res="$res C"; elif [ $c = 0 ]; then echo "seed $s: MISSED"; res="$res M"; else echo "seed $s: exit $c $(tail -2 /tmp/evalmut_$id.log | head -1 | cut -c1-200)"; res="$res E"; fi
done
git -C /repo checkout -- . ; git -C /repo clean -fdq -- . 2>/dev/null
echo "RESULT $id $(basename $(dirname $patch)):$res"
