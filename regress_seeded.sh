#!/bin/bash
# regress_seeded.sh [seed] — applies every stored seeded change (seeded/<id>-<k>/patch.diff) to /repo in turn, runs the
# property's quick check with one seed, reverts, and prints one line per change. Every line should say CAUGHT.
# Needs /repo clean and nothing else using it. Takes about half an hour.
cd "$(dirname "$0")"
seed=${1:-1}
git -C /repo diff --quiet || { echo "/repo has uncommitted changes"; exit 2; }
miss=0
for d in seeded/*/; do
  name=$(basename "$d"); id=${name%%-*}
  [ -f "$d/patch.diff" ] || continue
  if ! git -C /repo apply --check "$PWD/$d/patch.diff" 2>/dev/null; then echo "$name: patch no longer applies (the code it changed was repaired or moved)"; continue; fi
  r=$(./evalmut.sh "$id" "$PWD/$d/patch.diff" "$seed" 2>&1 | grep "^seed $seed:" | cut -c1-170)
  echo "$name: $r"
  case "$r" in *CAUGHT*) ;; *) miss=$((miss+1));; esac
done
echo "not caught with seed $seed: $miss"
