// Package evmprog builds EVM byte code without a Solidity compiler: a tiny
// assembler with labels, and the programs the simulator deploys.
package evmprog

import (
	"encoding/hex"
	"fmt"
	"math/big"
)

// Op codes used by the simulator's programs.
const (
	STOP           = 0x00
	ADD            = 0x01
	MUL            = 0x02
	SUB            = 0x03
	DIV            = 0x04
	LT             = 0x10
	GT             = 0x11
	EQ             = 0x14
	ISZERO         = 0x15
	AND            = 0x16
	OR             = 0x17
	NOT            = 0x19
	BYTE           = 0x1a
	SHL            = 0x1b
	SHR            = 0x1c
	ADDRESS        = 0x30
	BALANCE        = 0x31
	ORIGIN         = 0x32
	CALLER         = 0x33
	CALLVALUE      = 0x34
	CALLDATALOAD   = 0x35
	CALLDATASIZE   = 0x36
	CALLDATACOPY   = 0x37
	CODECOPY       = 0x39
	RETURNDATASIZE = 0x3d
	RETURNDATACOPY = 0x3e
	SELFBALANCE    = 0x47
	POP            = 0x50
	MLOAD          = 0x51
	MSTORE         = 0x52
	MSTORE8        = 0x53
	SLOAD          = 0x54
	SSTORE         = 0x55
	JUMP           = 0x56
	JUMPI          = 0x57
	GAS            = 0x5a
	JUMPDEST       = 0x5b
	PUSH1          = 0x60
	PUSH2          = 0x61
	PUSH4          = 0x63
	PUSH20         = 0x73
	PUSH32         = 0x7f
	DUP1           = 0x80
	DUP2           = 0x81
	DUP3           = 0x82
	DUP4           = 0x83
	DUP5           = 0x84
	DUP6           = 0x85
	DUP7           = 0x86
	DUP8           = 0x87
	SWAP1          = 0x90
	SWAP2          = 0x91
	SWAP3          = 0x92
	SWAP4          = 0x93
	LOG0           = 0xa0
	LOG1           = 0xa1
	CREATE         = 0xf0
	CALL           = 0xf1
	CALLCODE       = 0xf2
	RETURN         = 0xf3
	DELEGATECALL   = 0xf4
	STATICCALL     = 0xfa
	REVERT         = 0xfd
	INVALID        = 0xfe
	SELFDESTRUCT   = 0xff
)

type item struct {
	op    byte
	data  []byte
	label string // definition (op == JUMPDEST && label != "") or reference (push of a label)
	ref   bool
}

// Asm is a two-pass assembler: labels are pushed with PUSH2.
type Asm struct{ items []item }

func New() *Asm { return &Asm{} }

// Op appends plain op codes.
func (a *Asm) Op(ops ...byte) *Asm {
	for _, o := range ops {
		a.items = append(a.items, item{op: o})
	}
	return a
}

// Push appends the shortest PUSHn for v.
func (a *Asm) Push(v uint64) *Asm {
	b := new(big.Int).SetUint64(v).Bytes()
	if len(b) == 0 {
		b = []byte{0}
	}
	a.items = append(a.items, item{op: byte(PUSH1 + len(b) - 1), data: b})
	return a
}

// PushBytes appends PUSHn with exactly these bytes (1..32).
func (a *Asm) PushBytes(b []byte) *Asm {
	if len(b) == 0 || len(b) > 32 {
		panic("bad push size")
	}
	a.items = append(a.items, item{op: byte(PUSH1 + len(b) - 1), data: append([]byte{}, b...)})
	return a
}

// Label defines a jump destination.
func (a *Asm) Label(name string) *Asm {
	a.items = append(a.items, item{op: JUMPDEST, label: name})
	return a
}

// PushLabel pushes the address of a label (PUSH2).
func (a *Asm) PushLabel(name string) *Asm {
	a.items = append(a.items, item{op: PUSH2, label: name, ref: true, data: []byte{0, 0}})
	return a
}

// Jump / Jumpi to a label.
func (a *Asm) Jump(name string) *Asm  { return a.PushLabel(name).Op(JUMP) }
func (a *Asm) Jumpi(name string) *Asm { return a.PushLabel(name).Op(JUMPI) }

// Bytes assembles the program.
func (a *Asm) Bytes() []byte {
	pos := map[string]int{}
	pc := 0
	for _, it := range a.items {
		if it.op == JUMPDEST && it.label != "" && !it.ref {
			if _, dup := pos[it.label]; dup {
				panic("duplicate label " + it.label)
			}
			pos[it.label] = pc
		}
		pc += 1 + len(it.data)
	}
	var out []byte
	for _, it := range a.items {
		out = append(out, it.op)
		if it.ref {
			p, ok := pos[it.label]
			if !ok {
				panic("undefined label " + it.label)
			}
			out = append(out, byte(p>>8), byte(p))
		} else {
			out = append(out, it.data...)
		}
	}
	return out
}

// Deployer wraps runtime code into init code that returns it.
func Deployer(runtime []byte) []byte {
	n := len(runtime)
	if n > 0xffff {
		panic("runtime too large")
	}
	// PUSH2 n, DUP1, PUSH2 off, PUSH1 0, CODECOPY, PUSH1 0, RETURN
	init := []byte{PUSH2, byte(n >> 8), byte(n), DUP1, PUSH2, 0, 0, PUSH1, 0, CODECOPY, PUSH1, 0, RETURN}
	off := len(init)
	init[5], init[6] = byte(off>>8), byte(off)
	return append(init, runtime...)
}

func Hex(b []byte) string { return hex.EncodeToString(b) }

// ---- small fixed programs

// Reverter always reverts with empty data.
func Reverter() []byte { return New().Push(0).Push(0).Op(REVERT).Bytes() }

// Looper burns all gas in an infinite loop.
func Looper() []byte { return New().Label("l").Jump("l").Bytes() }

// Storer: no calldata -> SSTORE(0,1); any calldata -> SSTORE(0,0) (clearing
// earns a gas refund).
func Storer() []byte {
	return New().Op(CALLDATASIZE, ISZERO).Jumpi("set").
		Push(0).Push(0).Op(SSTORE, STOP).
		Label("set").Push(1).Push(0).Op(SSTORE, STOP).Bytes()
}

func init() {
	if len(Storer()) == 0 || len(Looper()) == 0 {
		panic(fmt.Sprint("asm self check"))
	}
}

// Storer4: no calldata -> SSTORE(i,1) for i in 0..3; any calldata -> clear all
// four (the refund of several clears exceeds the EIP-3529 cap of gasUsed/5).
func Storer4() []byte {
	a := New().Op(CALLDATASIZE, ISZERO).Jumpi("set")
	for i := uint64(0); i < 4; i++ {
		a.Push(0).Push(i).Op(SSTORE)
	}
	a.Op(STOP).Label("set")
	for i := uint64(0); i < 4; i++ {
		a.Push(1).Push(i).Op(SSTORE)
	}
	return a.Op(STOP).Bytes()
}
