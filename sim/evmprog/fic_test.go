package evmprog

import (
	"bytes"
	"math/big"
	"testing"

	"github.com/ethereum/go-ethereum/common"
	"github.com/ethereum/go-ethereum/core/rawdb"
	"github.com/ethereum/go-ethereum/core/state"
	"github.com/ethereum/go-ethereum/core/vm/runtime"
)

type testResolver map[string]common.Address

func (r testResolver) Address(t string) (common.Address, bool) { a, ok := r[t]; return a, ok }
func (r testResolver) CallData(n *Node) ([]byte, bool)         { return common.FromHex(n.Data), n.Data != "" }

// The interpreter is checked against go-ethereum's in-memory runtime before it
// is ever used on Haqq.
func TestFIC(t *testing.T) {
	db, _ := state.New(common.Hash{}, state.NewDatabase(rawdb.NewMemoryDatabase()), nil)
	f0, f1, f2 := common.HexToAddress("0xf0"), common.HexToAddress("0xf1"), common.HexToAddress("0xf2")
	for _, a := range []common.Address{f0, f1, f2} {
		db.SetCode(a, FIC())
	}
	res := testResolver{"fic0": f0, "fic1": f1, "fic2": f2, "eoa": common.HexToAddress("0xe0a")}
	db.AddBalance(f0, big.NewInt(1000))
	cfg := &runtime.Config{State: db, GasLimit: 5_000_000, Origin: common.HexToAddress("0x01")}

	// f0: sstore(1,7); call f1 [ sstore(2,9); call f2 [sstore(3,3); revert] caught ; value to eoa ]; log
	prog := []*Node{
		{Kind: OpSStore, Key: 1, Val: 7},
		{Kind: OpCall, Target: "fic1", Value: "100", Sub: []*Node{
			{Kind: OpSStore, Key: 2, Val: 9},
			{Kind: OpCall, Target: "fic2", Catch: true, Sub: []*Node{{Kind: OpSStore, Key: 3, Val: 3}, {Kind: OpRevert}}},
			{Kind: OpCall, Target: "eoa", Value: "40"},
		}},
		{Kind: OpLog, Key: 5},
	}
	in, err := Encode(prog, res)
	if err != nil {
		t.Fatal(err)
	}
	ret, _, err := runtime.Call(f0, in, cfg)
	if err != nil {
		t.Fatalf("call failed: %v ret=%x", err, ret)
	}
	fr, err := Decode(prog, ret)
	if err != nil || len(fr) != 1 || !fr[0].Success || len(fr[0].Sub) != 2 {
		t.Fatalf("trace %v %+v", err, fr)
	}
	if fr[0].Sub[0].Success || !fr[0].Sub[1].Success {
		t.Fatalf("inner frames: %+v %+v", fr[0].Sub[0], fr[0].Sub[1])
	}
	if db.GetState(f0, common.BigToHash(big.NewInt(1))).Big().Int64() != 7 || db.GetState(f1, common.BigToHash(big.NewInt(2))).Big().Int64() != 9 {
		t.Fatal("committed frames' storage missing")
	}
	if db.GetState(f2, common.BigToHash(big.NewInt(3))).Big().Sign() != 0 {
		t.Fatal("reverted frame's storage survived")
	}
	if db.GetBalance(res["eoa"]).Int64() != 40 || db.GetBalance(f1).Int64() != 60 || db.GetBalance(f0).Int64() != 900 {
		t.Fatalf("balances %v %v %v", db.GetBalance(res["eoa"]), db.GetBalance(f1), db.GetBalance(f0))
	}
	if len(db.Logs()) != 1 {
		t.Fatalf("logs %d", len(db.Logs()))
	}

	// non-caught inner failure bubbles up: everything reverts, trace is the revert data
	prog2 := []*Node{{Kind: OpSStore, Key: 9, Val: 9}, {Kind: OpCall, Target: "fic1", Sub: []*Node{{Kind: OpInvalid}}}, {Kind: OpSStore, Key: 10, Val: 1}}
	in2, _ := Encode(prog2, res)
	ret2, _, err2 := runtime.Call(f0, in2, cfg)
	if err2 == nil {
		t.Fatal("expected revert")
	}
	fr2, _ := Decode(prog2, ret2)
	if len(fr2) != 1 || fr2[0].Success {
		t.Fatalf("trace2 %+v", fr2)
	}
	if db.GetState(f0, common.BigToHash(big.NewInt(9))).Big().Sign() != 0 {
		t.Fatal("storage of reverted top frame survived")
	}
	// gas stipend: child with 2300 gas cannot sstore
	prog3 := []*Node{{Kind: OpCall, Target: "fic1", Gas: 3000, Catch: true, Sub: []*Node{{Kind: OpSStore, Key: 4, Val: 4}}}, {Kind: OpStaticCall, Target: "fic1", Catch: true, Sub: []*Node{{Kind: OpSStore, Key: 5, Val: 5}}}}
	in3, _ := Encode(prog3, res)
	ret3, _, err3 := runtime.Call(f0, in3, cfg)
	if err3 != nil {
		t.Fatal(err3)
	}
	fr3, _ := Decode(prog3, ret3)
	if len(fr3) != 2 || fr3[0].Success || fr3[1].Success {
		t.Fatalf("trace3 %+v %x", fr3, ret3)
	}
	if !bytes.Equal(FIC(), FIC()) {
		t.Fatal("nondeterministic assembly")
	}
}
