package evmprog

import (
	"encoding/binary"
	"encoding/json"
	"fmt"
	"math/big"

	"github.com/ethereum/go-ethereum/common"
)

// FIC — the frame-interpreter contract. One fixed runtime byte code; its
// calldata is a list of ops, so a whole call tree with reverts, try/catch,
// attached value, gas stipends and call kinds is DATA: generated, recorded in
// the schedule file and shrunk like any other argument.
//
// Wire format of one op (raw calldata, no ABI selector):
//
//	kind:1 | flags:1 (bit0 = catch) | target:20 | value:32 | gas:4 (0 = all) | len:2 | payload:len
//
// After every call op the interpreter appends  success:1 | retlen:2 | returndata
// to its output buffer; a failed call without the catch flag makes the frame
// revert with the buffer as revert data. The frame returns the buffer.
const (
	OpCall         = 1
	OpStaticCall   = 2
	OpDelegateCall = 3
	OpCallCode     = 4
	OpSStore       = 5 // payload: key32 | value32
	OpLog          = 6 // payload: data
	OpRevert       = 7
	OpInvalid      = 8
	OpStop         = 9
	OpSelfDestruct = 10 // target = beneficiary
)

const (
	ficCD  = 0x400  // calldata copy
	ficOut = 0x4000 // output buffer
	// memory slots
	sPC, sEnd, sOut                                = 0x00, 0x20, 0x40
	sKind, sFlags, sTarget, sValue, sGas, sLen, sP = 0x60, 0x80, 0xa0, 0xc0, 0xe0, 0x100, 0x120
)

func (a *Asm) mload(slot uint64) *Asm  { return a.Push(slot).Op(MLOAD) }
func (a *Asm) mstore(slot uint64) *Asm { return a.Push(slot).Op(MSTORE) } // value on stack

// FIC returns the runtime byte code of the frame interpreter.
func FIC() []byte {
	a := New()
	// copy calldata to memory; pc, end, out
	a.Op(CALLDATASIZE).Push(0).Push(ficCD).Op(CALLDATACOPY)
	a.Push(ficCD).mstore(sPC)
	a.Op(CALLDATASIZE).Push(ficCD).Op(ADD).mstore(sEnd)
	a.Push(ficOut).mstore(sOut)

	a.Label("loop")
	a.mload(sEnd).mload(sPC).Op(LT, ISZERO).Jumpi("done")
	// decode the op header at pc
	a.mload(sPC).Op(MLOAD).Push(248).Op(SHR).mstore(sKind)
	a.mload(sPC).Push(1).Op(ADD, MLOAD).Push(248).Op(SHR).mstore(sFlags)
	a.mload(sPC).Push(2).Op(ADD, MLOAD).Push(96).Op(SHR).mstore(sTarget)
	a.mload(sPC).Push(22).Op(ADD, MLOAD).mstore(sValue)
	a.mload(sPC).Push(54).Op(ADD, MLOAD).Push(224).Op(SHR).mstore(sGas)
	a.mload(sPC).Push(58).Op(ADD, MLOAD).Push(240).Op(SHR).mstore(sLen)
	a.mload(sPC).Push(60).Op(ADD).mstore(sP)
	// pc += 60 + len
	a.mload(sP).mload(sLen).Op(ADD).mstore(sPC)

	// dispatch
	for _, k := range []struct {
		kind  uint64
		label string
	}{{OpCall, "call"}, {OpStaticCall, "scall"}, {OpDelegateCall, "dcall"}, {OpCallCode, "ccall"}, {OpSStore, "sstore"},
		{OpLog, "log"}, {OpRevert, "dorevert"}, {OpInvalid, "invalid"}, {OpStop, "done"}, {OpSelfDestruct, "selfdestruct"}} {
		a.mload(sKind).Push(k.kind).Op(EQ).Jumpi(k.label)
	}
	a.Jump("loop") // unknown kind: skip

	// gas argument helper: field value or all remaining gas
	gasArg := func(sfx string) {
		a.mload(sGas).Op(DUP1, ISZERO).Jumpi("allgas" + sfx)
		a.Jump("gasok" + sfx)
		a.Label("allgas"+sfx).Op(POP, GAS)
		a.Label("gasok" + sfx)
	}
	// CALL / CALLCODE: gas, addr, value, argsOffset, argsLength, retOffset, retLength
	for _, c := range []struct {
		label string
		op    byte
		value bool
	}{{"call", CALL, true}, {"ccall", CALLCODE, true}, {"scall", STATICCALL, false}, {"dcall", DELEGATECALL, false}} {
		a.Label(c.label)
		a.Push(0).Push(0).mload(sLen).mload(sP)
		if c.value {
			a.mload(sValue)
		}
		a.mload(sTarget)
		gasArg(c.label)
		a.Op(c.op)
		a.Jump("aftercall")
	}

	// after a call: stack [success]
	a.Label("aftercall")
	a.Op(DUP1).mload(sOut).Op(MSTORE8)                                         // out[0] = success
	a.Op(RETURNDATASIZE).Push(240).Op(SHL).mload(sOut).Push(1).Op(ADD, MSTORE) // out[1..2] = len
	a.Op(RETURNDATASIZE).Push(0).mload(sOut).Push(3).Op(ADD, RETURNDATACOPY)   // out[3..] = returndata
	a.mload(sOut).Push(3).Op(ADD, RETURNDATASIZE, ADD).mstore(sOut)            // out += 3 + len
	// if !success && !catch -> revert
	a.Op(ISZERO).mload(sFlags).Push(1).Op(AND, ISZERO, AND).Jumpi("dorevert")
	a.Jump("loop")

	a.Label("sstore")
	a.mload(sP).Push(32).Op(ADD, MLOAD).mload(sP).Op(MLOAD, SSTORE)
	a.Jump("loop")

	a.Label("log")
	a.mload(sLen).mload(sP).Op(LOG0)
	a.Jump("loop")

	a.Label("selfdestruct")
	a.mload(sTarget).Op(SELFDESTRUCT)

	a.Label("invalid").Op(INVALID)

	a.Label("dorevert")
	a.Push(ficOut).mload(sOut).Op(SUB).Push(ficOut).Op(REVERT)

	a.Label("done")
	a.Push(ficOut).mload(sOut).Op(SUB).Push(ficOut).Op(RETURN)
	return a.Bytes()
}

// ---------------------------------------------------------------------------
// Programs as data

// Node is one op of a FIC program. A call op whose Target is another FIC
// carries a sub-program; a call to a precompile / token / EOA carries raw data.
type Node struct {
	Kind   int     `json:"k"`
	Catch  bool    `json:"c,omitempty"`
	Target string  `json:"t,omitempty"` // symbolic: "fic0", "fic1", "pre:staking", "acct:3", hex address
	Value  string  `json:"v,omitempty"`
	Gas    uint32  `json:"g,omitempty"`
	Sub    []*Node `json:"sub,omitempty"`  // nested program (Target is a FIC)
	Data   string  `json:"data,omitempty"` // hex payload (calls to non-FIC targets); or symbolic call description resolved by the profile
	Key    uint64  `json:"key,omitempty"`  // sstore
	Val    uint64  `json:"val,omitempty"`
	// Call is a symbolic precompile call the profile encodes with the ABI (kept symbolic so that replay files are readable)
	Call json.RawMessage `json:"call,omitempty"`
}

// Resolver turns symbolic targets / calls into addresses and calldata.
type Resolver interface {
	Address(target string) (common.Address, bool)
	CallData(n *Node) ([]byte, bool)
}

// Encode serialises a program to FIC calldata.
func Encode(prog []*Node, r Resolver) ([]byte, error) {
	var out []byte
	for _, n := range prog {
		var payload []byte
		var target common.Address
		switch n.Kind {
		case OpCall, OpStaticCall, OpDelegateCall, OpCallCode:
			t, ok := r.Address(n.Target)
			if !ok {
				return nil, fmt.Errorf("unknown target %q", n.Target)
			}
			target = t
			if n.Sub != nil {
				p, err := Encode(n.Sub, r)
				if err != nil {
					return nil, err
				}
				payload = p
			} else if d, ok := r.CallData(n); ok {
				payload = d
			}
		case OpSStore:
			payload = make([]byte, 64)
			binary.BigEndian.PutUint64(payload[24:32], n.Key)
			binary.BigEndian.PutUint64(payload[56:64], n.Val)
		case OpLog:
			payload = []byte{0xfe, byte(n.Key)}
		case OpSelfDestruct:
			t, ok := r.Address(n.Target)
			if !ok {
				return nil, fmt.Errorf("unknown target %q", n.Target)
			}
			target = t
		}
		if len(payload) > 0xffff {
			return nil, fmt.Errorf("payload too large")
		}
		hdr := make([]byte, 60)
		hdr[0] = byte(n.Kind)
		if n.Catch {
			hdr[1] = 1
		}
		copy(hdr[2:22], target[:])
		if n.Value != "" {
			v, ok := new(big.Int).SetString(n.Value, 10)
			if !ok || v.Sign() < 0 || v.BitLen() > 256 {
				return nil, fmt.Errorf("bad value %q", n.Value)
			}
			v.FillBytes(hdr[22:54])
		}
		binary.BigEndian.PutUint32(hdr[54:58], n.Gas)
		binary.BigEndian.PutUint16(hdr[58:60], uint16(len(payload)))
		out = append(out, hdr...)
		out = append(out, payload...)
	}
	return out, nil
}

// Frame is the decoded outcome of one call op, as reported by the interpreter.
type Frame struct {
	Node    *Node
	Success bool
	Ret     []byte
	Sub     []*Frame // decoded sub-trace when the callee was a FIC and its buffer is available
}

// Decode parses an interpreter output buffer against the program that
// produced it. Ops after a non-caught failure did not run.
func Decode(prog []*Node, buf []byte) ([]*Frame, error) {
	var out []*Frame
	off := 0
	for _, n := range prog {
		switch n.Kind {
		case OpCall, OpStaticCall, OpDelegateCall, OpCallCode:
			if off == len(buf) {
				return out, nil // frame ended earlier (revert/stop/invalid before this op)
			}
			if off+3 > len(buf) {
				return out, fmt.Errorf("truncated trace at %d", off)
			}
			f := &Frame{Node: n, Success: buf[off] == 1}
			l := int(binary.BigEndian.Uint16(buf[off+1 : off+3]))
			if off+3+l > len(buf) {
				return out, fmt.Errorf("truncated return data at %d", off)
			}
			f.Ret = buf[off+3 : off+3+l]
			off += 3 + l
			if n.Sub != nil {
				// a FIC callee returns (or reverts with) its own buffer
				sub, err := Decode(n.Sub, f.Ret)
				if err == nil {
					f.Sub = sub
				}
			}
			out = append(out, f)
			if !f.Success && !n.Catch {
				return out, nil
			}
		case OpRevert, OpInvalid, OpStop, OpSelfDestruct:
			return out, nil
		}
	}
	return out, nil
}
