package props

import (
	"fmt"
	"math/big"
	"math/rand"
	"testing"
	"time"

	sdkmath "cosmossdk.io/math"
	abci "github.com/cometbft/cometbft/abci/types"
	cryptotypes "github.com/cosmos/cosmos-sdk/crypto/types"
	"github.com/cosmos/cosmos-sdk/testutil/sims"
	sdk "github.com/cosmos/cosmos-sdk/types"
	authtypes "github.com/cosmos/cosmos-sdk/x/auth/types"
	banktypes "github.com/cosmos/cosmos-sdk/x/bank/types"
	transfertypes "github.com/cosmos/ibc-go/v7/modules/apps/transfer/types"
	clienttypes "github.com/cosmos/ibc-go/v7/modules/core/02-client/types"
	channeltypes "github.com/cosmos/ibc-go/v7/modules/core/04-channel/types"
	host "github.com/cosmos/ibc-go/v7/modules/core/24-host"
	ibcgotesting "github.com/cosmos/ibc-go/v7/testing"
	"github.com/ethereum/go-ethereum/common"

	"github.com/haqq-network/haqq/app"
	"github.com/haqq-network/haqq/contracts"
	"github.com/haqq-network/haqq/crypto/ethsecp256k1"
	haqqibc "github.com/haqq-network/haqq/ibc/testing"
	coinomicstypes "github.com/haqq-network/haqq/x/coinomics/types"
	erc20types "github.com/haqq-network/haqq/x/erc20/types"

	e "haqqsim/engine"
)

// Two real Haqq applications connected by one ICS-20 channel. The light
// clients, proofs and handshake come from ibc-go's testing package (through
// the repository's own ibc/testing adapter); the relayer is the simulator:
// which packet, acknowledgement or timeout is delivered when, how often and in
// which order is decided by the schedule.

type ibcChain struct {
	tc  *ibcgotesting.TestChain
	app *app.Haqq
	ep  *haqqibc.Endpoint
}

// ibcFamily is one asset with a home chain; on the other chain it exists as an IBC voucher.
type ibcFamily struct {
	Name  string
	Home  int
	Kind  string // "coin" (a bank coin on its home chain) | "erc20" (a token contract on its home chain)
	Base  string // denomination on the home chain
	Token common.Address
}

type ibcPacket struct {
	ID     int
	Fam    int
	Src    int // sending chain
	From   int // user index on Src
	To     int // user index on the other chain
	Amt    *big.Int
	Packet channeltypes.Packet
	// life cycle
	Received bool
	Ack      []byte
	AckOK    bool
	Done     bool // acknowledged or timed out on the sending chain
}

type ibcWorld struct {
	t      *testing.T
	coord  *ibcgotesting.Coordinator
	ch     [2]*ibcChain
	users  [2][]*e.Account
	fams   []*ibcFamily
	pkts   []*ibcPacket
	total  []*big.Int // per family: what exists in total
	nUsers int
	stats  *e.Stats
	w      *e.World // only for its tx builder (codec, signer); its own replica is idle in two-chain runs
}

// guarded runs code that may end in t.FailNow() (runtime.Goexit) of the testing
// helpers on its own goroutine and reports that as an error.
func guarded(f func() error) (err error) {
	done := make(chan error, 1)
	finished := false
	go func() {
		defer func() {
			if x := recover(); x != nil {
				done <- fmt.Errorf("panic: %v", x)
				return
			}
			if !finished {
				done <- fmt.Errorf("an assertion of the ibc testing helpers failed")
			}
		}()
		r := f()
		finished = true
		done <- r
	}()
	return <-done
}

func (iw *ibcWorld) ctx(c int) sdk.Context { return iw.ch[c].tc.GetContext() }

func (iw *ibcWorld) commit(c int) {
	iw.coord.CommitBlock(iw.ch[c].tc)
}

// deliver signs msgs with priv and delivers them in a block of chain c. Unlike
// the testing helpers it reports a failing transaction as an error, and it
// uses a fixed memo so that the same schedule produces the same bytes.
func (iw *ibcWorld) deliver(c int, acct *e.Account, msgs ...sdk.Msg) (*sdk.Result, error) {
	chain := iw.ch[c].tc
	iw.coord.UpdateTimeForChain(chain)
	acc := iw.ch[c].app.AccountKeeper.GetAccount(chain.GetContext(), acct.Acc)
	if acc == nil {
		return nil, fmt.Errorf("account %s unknown on chain %d", acct.Acc, c)
	}
	fee := sdk.Coins{sdk.NewInt64Coin(e.Denom, haqqibc.DefaultFeeAmt)}
	tx, err := sims.GenSignedMockTx(rand.New(rand.NewSource(1)), chain.TxConfig, msgs, fee, sims.DefaultGenTxGas, chain.ChainID,
		[]uint64{acc.GetAccountNumber()}, []uint64{acc.GetSequence()}, acct.Priv)
	if err != nil {
		return nil, err
	}
	_, res, err := chain.App.GetBaseApp().SimDeliver(chain.TxConfig.TxEncoder(), tx)
	if iw.stats != nil {
		iw.stats.Txs++
		iw.stats.Blocks++
		iw.stats.SimTime += 5 * time.Second
		if err == nil {
			iw.stats.TxsOK++
		}
	}
	chain.NextBlock()
	iw.coord.IncrementTime()
	iw.syncRelayer(c)
	return res, err
}

// relayer returns the chain's funded sender account as an engine account.
func (iw *ibcWorld) relayer(c int) *e.Account {
	chain := iw.ch[c].tc
	priv := chain.SenderPrivKey
	addr := chain.SenderAccount.GetAddress()
	return &e.Account{Priv: privOf(priv), Eth: common.BytesToAddress(addr.Bytes()), Acc: addr}
}

// syncRelayer re-reads the sender account the testing helpers keep a copy of.
func (iw *ibcWorld) syncRelayer(c int) {
	chain := iw.ch[c].tc
	if acc := iw.ch[c].app.AccountKeeper.GetAccount(chain.GetContext(), chain.SenderAccount.GetAddress()); acc != nil {
		chain.SenderAccount = acc
	}
}

func (iw *ibcWorld) other(c int) int { return 1 - c }

// denomOn returns the denomination of family f on chain c.
func (iw *ibcWorld) denomOn(f *ibcFamily, c int) string {
	if c == f.Home {
		return f.Base
	}
	ep := iw.ch[c].ep
	return transfertypes.ParseDenomTrace(transfertypes.GetPrefixedDenom(ep.ChannelConfig.PortID, ep.ChannelID, f.Base)).IBCDenom()
}

// pairOn returns the token pair registered for family f on chain c, if any.
func (iw *ibcWorld) pairOn(f *ibcFamily, c int) (erc20types.TokenPair, bool) {
	k := iw.ch[c].app.Erc20Keeper
	id := k.GetTokenPairID(iw.ctx(c), iw.denomOn(f, c))
	if len(id) == 0 {
		return erc20types.TokenPair{}, false
	}
	return k.GetTokenPair(iw.ctx(c), id)
}

func (iw *ibcWorld) erc20Bal(c int, token common.Address, who common.Address) *big.Int {
	b := iw.ch[c].app.Erc20Keeper.BalanceOf(iw.ctx(c), contracts.ERC20MinterBurnerDecimalsContract.ABI, token, who)
	if b == nil {
		return new(big.Int)
	}
	return b
}

// holding: what user u on chain c holds of family f, in either representation.
func (iw *ibcWorld) holding(f *ibcFamily, c int, who sdk.AccAddress) (coin, tok *big.Int) {
	coin = iw.ch[c].app.BankKeeper.GetBalance(iw.ctx(c), who, iw.denomOn(f, c)).Amount.BigInt()
	tok = new(big.Int)
	if p, ok := iw.pairOn(f, c); ok {
		tok = iw.erc20Bal(c, p.GetERC20Contract(), common.BytesToAddress(who.Bytes()))
	}
	return coin, tok
}

func (iw *ibcWorld) mint(c int, to sdk.AccAddress, coins sdk.Coins) error {
	a := iw.ch[c].app
	if err := a.BankKeeper.MintCoins(iw.ctx(c), coinomicstypes.ModuleName, coins); err != nil {
		return err
	}
	return a.BankKeeper.SendCoinsFromModuleToAccount(iw.ctx(c), coinomicstypes.ModuleName, to, coins)
}

func coinMeta(denom, name string) banktypes.Metadata {
	return banktypes.Metadata{
		Description: "simulated asset " + name, Base: denom, Name: name, Symbol: name, Display: name,
		DenomUnits: []*banktypes.DenomUnit{{Denom: denom, Exponent: 0}, {Denom: name, Exponent: 6}},
	}
}

// newIBCWorld builds the two chains, the channel, the users and the assets.
func newIBCWorld(keySeed uint64, nUsers int) (*ibcWorld, error) {
	iw := &ibcWorld{t: &testing.T{}, nUsers: nUsers}
	err := guarded(func() error {
		iw.coord = haqqibc.NewCoordinator(iw.t, 2, 0)
		for c := 0; c < 2; c++ {
			tc := iw.coord.GetChain(ibcgotesting.GetChainID(c + 1))
			iw.ch[c] = &ibcChain{tc: tc, app: tc.App.(*app.Haqq)}
			iw.coord.CommitNBlocks(tc, 2)
			a := iw.ch[c].app
			ctx := tc.GetContext()
			// the EVM needs a proposer it can map to a coinbase
			vals := a.StakingKeeper.GetValidators(ctx, 2)
			cons, err := vals[0].GetConsAddr()
			if err != nil {
				return err
			}
			tc.CurrentHeader.ProposerAddress = cons.Bytes()
			if err := a.StakingKeeper.SetValidatorByConsAddr(ctx, vals[0]); err != nil {
				return err
			}
			p := erc20types.DefaultParams()
			p.EnableErc20 = true
			if err := a.Erc20Keeper.SetParams(ctx, p); err != nil {
				return err
			}
			big1 := sdk.NewCoins(sdk.NewCoin(e.Denom, sdkmath.NewIntFromBigInt(e.BigS("1000000000000000000000000"))))
			if err := iw.mint(c, tc.SenderAccount.GetAddress(), big1); err != nil {
				return err
			}
			// fee collector must be able to refund EVM gas
			if err := a.BankKeeper.MintCoins(ctx, erc20types.ModuleName, big1); err != nil {
				return err
			}
			if err := a.BankKeeper.SendCoinsFromModuleToModule(ctx, erc20types.ModuleName, authtypes.FeeCollectorName, big1); err != nil {
				return err
			}
			for u := 0; u < nUsers; u++ {
				acct := e.NewAccount(keySeed, 100*c+u)
				iw.users[c] = append(iw.users[c], acct)
				if err := iw.mint(c, acct.Acc, sdk.NewCoins(sdk.NewCoin(e.Denom, sdkmath.NewIntFromBigInt(e.BigS("1000000000000000000000"))))); err != nil {
					return err
				}
			}
			iw.coord.CommitBlock(tc)
		}
		path := haqqibc.NewTransferPath(iw.ch[0].tc, iw.ch[1].tc)
		haqqibc.SetupPath(iw.coord, path)
		iw.ch[0].ep, iw.ch[1].ep = path.EndpointA, path.EndpointB
		return nil
	})
	if err != nil {
		return nil, err
	}
	// assets: on each chain a bank coin (registered as a coin-origin pair there) and a token contract
	err = guarded(func() error {
		for c := 0; c < 2; c++ {
			a := iw.ch[c].app
			ctx := iw.ctx(c)
			coinDenom := fmt.Sprintf("ucoin%c", 'a'+c)
			per := sdkmath.NewInt(1_000_000_000)
			for _, u := range iw.users[c] {
				if err := iw.mint(c, u.Acc, sdk.NewCoins(sdk.NewCoin(coinDenom, per))); err != nil {
					return err
				}
			}
			if _, err := a.Erc20Keeper.RegisterCoin(ctx, coinMeta(coinDenom, fmt.Sprintf("COIN%c", 'A'+c))); err != nil {
				return fmt.Errorf("register coin: %w", err)
			}
			iw.fams = append(iw.fams, &ibcFamily{Name: coinDenom, Home: c, Kind: "coin", Base: coinDenom})
			iw.total = append(iw.total, new(big.Int).Mul(per.BigInt(), big.NewInt(int64(nUsers))))
			// token contract owned by the erc20 module, distributed to the users, then registered as ERC20-origin pair
			tokName := fmt.Sprintf("TOK%c", 'A'+c)
			addr, err := a.Erc20Keeper.DeployERC20Contract(ctx, coinMeta("u"+tokName, tokName))
			if err != nil {
				return fmt.Errorf("deploy token: %w", err)
			}
			for _, u := range iw.users[c] {
				if _, err := a.Erc20Keeper.CallEVM(ctx, contracts.ERC20MinterBurnerDecimalsContract.ABI, erc20types.ModuleAddress, addr, true, "mint", u.Eth, per.BigInt()); err != nil {
					return fmt.Errorf("mint token: %w", err)
				}
			}
			pair, err := a.Erc20Keeper.RegisterERC20(ctx, addr)
			if err != nil {
				return fmt.Errorf("register erc20: %w", err)
			}
			iw.fams = append(iw.fams, &ibcFamily{Name: tokName, Home: c, Kind: "erc20", Base: pair.Denom, Token: addr})
			iw.total = append(iw.total, new(big.Int).Mul(per.BigInt(), big.NewInt(int64(nUsers))))
			iw.coord.CommitBlock(iw.ch[c].tc)
		}
		return nil
	})
	return iw, err
}

// ---- relayer primitives

func (iw *ibcWorld) updateClient(c int) error {
	err := guarded(func() error { return iw.ch[c].ep.UpdateClient() })
	iw.syncRelayer(c)
	return err
}

// send delivers a MsgTransfer of family f from user `from` on chain c.
func (iw *ibcWorld) send(c int, f, from, to int, amt *big.Int, timeoutBlocks uint64) (*ibcPacket, error) {
	fam := iw.fams[f]
	d := iw.other(c)
	src, dst := iw.ch[c], iw.ch[d]
	rev := clienttypes.ParseChainID(dst.tc.ChainID)
	th := clienttypes.NewHeight(rev, uint64(dst.tc.CurrentHeader.Height)+timeoutBlocks)
	coin := sdk.NewCoin(iw.denomOn(fam, c), sdkmath.NewIntFromBigInt(amt))
	var receiver string
	switch {
	case to >= 0:
		receiver = iw.users[d][to].Acc.String()
	case to == -1:
		receiver = "not-an-address"
	default:
		receiver = authtypes.NewModuleAddress(authtypes.FeeCollectorName).String()
	}
	msg := transfertypes.NewMsgTransfer(src.ep.ChannelConfig.PortID, src.ep.ChannelID, coin, iw.users[c][from].Acc.String(), receiver, th, 0, "")
	res, err := iw.deliver(c, iw.users[c][from], msg)
	if err != nil {
		return nil, err
	}
	packet, err := ibcgotesting.ParsePacketFromEvents(res.GetEvents())
	if err != nil {
		return nil, fmt.Errorf("transfer succeeded without a send_packet event: %w", err)
	}
	p := &ibcPacket{ID: len(iw.pkts), Fam: f, Src: c, From: from, To: to, Amt: new(big.Int).Set(amt), Packet: packet}
	iw.pkts = append(iw.pkts, p)
	return p, nil
}

// recv relays packet p to its destination. ok=false with err=nil: the chain refused (e.g. timed out).
func (iw *ibcWorld) recv(p *ibcPacket) (*sdk.Result, error) {
	d := iw.other(p.Src)
	if err := iw.updateClient(d); err != nil {
		return nil, fmt.Errorf("harness: update client: %w", err)
	}
	var msg *channeltypes.MsgRecvPacket
	if err := guarded(func() error {
		key := host.PacketCommitmentKey(p.Packet.GetSourcePort(), p.Packet.GetSourceChannel(), p.Packet.GetSequence())
		proof, h := iw.ch[p.Src].ep.QueryProof(key)
		msg = channeltypes.NewMsgRecvPacket(p.Packet, proof, h, iw.relayer(d).Acc.String())
		return nil
	}); err != nil {
		return nil, fmt.Errorf("harness: proof: %w", err)
	}
	return iw.deliver(d, iw.relayer(d), msg)
}

func (iw *ibcWorld) ack(p *ibcPacket) (*sdk.Result, error) {
	d := iw.other(p.Src)
	if err := iw.updateClient(p.Src); err != nil {
		return nil, fmt.Errorf("harness: update client: %w", err)
	}
	var msg *channeltypes.MsgAcknowledgement
	if err := guarded(func() error {
		key := host.PacketAcknowledgementKey(p.Packet.GetDestPort(), p.Packet.GetDestChannel(), p.Packet.GetSequence())
		proof, h := iw.ch[d].ep.QueryProof(key)
		msg = channeltypes.NewMsgAcknowledgement(p.Packet, p.Ack, proof, h, iw.relayer(p.Src).Acc.String())
		return nil
	}); err != nil {
		return nil, fmt.Errorf("harness: proof: %w", err)
	}
	return iw.deliver(p.Src, iw.relayer(p.Src), msg)
}

func (iw *ibcWorld) timeout(p *ibcPacket) (*sdk.Result, error) {
	d := iw.other(p.Src)
	if err := iw.updateClient(p.Src); err != nil {
		return nil, fmt.Errorf("harness: update client: %w", err)
	}
	var msg *channeltypes.MsgTimeout
	if err := guarded(func() error {
		key := host.PacketReceiptKey(p.Packet.GetDestPort(), p.Packet.GetDestChannel(), p.Packet.GetSequence())
		proof, h := iw.ch[d].ep.QueryProof(key)
		next, _ := iw.ch[d].app.IBCKeeper.ChannelKeeper.GetNextSequenceRecv(iw.ctx(d), p.Packet.GetDestPort(), p.Packet.GetDestChannel())
		msg = channeltypes.NewMsgTimeout(p.Packet, next, proof, h, iw.relayer(p.Src).Acc.String())
		return nil
	}); err != nil {
		return nil, fmt.Errorf("harness: proof: %w", err)
	}
	return iw.deliver(p.Src, iw.relayer(p.Src), msg)
}

func privOf(p cryptotypes.PrivKey) *ethsecp256k1.PrivKey { return p.(*ethsecp256k1.PrivKey) }

// paused / setPaused: the token contract of an ERC20-origin family, driven by its owner (the module account deployed it).
func (iw *ibcWorld) paused(f *ibcFamily) bool {
	c := f.Home
	res, err := iw.ch[c].app.Erc20Keeper.CallEVM(iw.ctx(c), contracts.ERC20MinterBurnerDecimalsContract.ABI, erc20types.ModuleAddress, f.Token, false, "paused")
	if err != nil {
		return false
	}
	out, err := contracts.ERC20MinterBurnerDecimalsContract.ABI.Unpack("paused", res.Ret)
	return err == nil && len(out) == 1 && out[0].(bool)
}

func (iw *ibcWorld) setPaused(f *ibcFamily, on bool) {
	c := f.Home
	method := "unpause"
	if on {
		method = "pause"
	}
	if _, err := iw.ch[c].app.Erc20Keeper.CallEVM(iw.ctx(c), contracts.ERC20MinterBurnerDecimalsContract.ABI, erc20types.ModuleAddress, f.Token, true, method); err != nil {
		panic(fmt.Errorf("harness: %s token %s: %w", method, f.Name, err))
	}
	iw.commit(c)
}

type ics20Height struct {
	RevisionNumber uint64
	RevisionHeight uint64
}

// sendViaPrecompile performs the same transfer as send, but as an Ethereum
// transaction of the user to the ICS-20 precompile (0x…0802).
func (iw *ibcWorld) sendViaPrecompile(c int, f, from, to int, amt *big.Int, timeoutBlocks uint64) (*ibcPacket, error) {
	fam := iw.fams[f]
	d := iw.other(c)
	src, dst := iw.ch[c], iw.ch[d]
	chain := src.tc
	rev := clienttypes.ParseChainID(dst.tc.ChainID)
	acct := iw.users[c][from]
	receiver := "not-an-address"
	switch {
	case to >= 0:
		receiver = iw.users[d][to].Acc.String()
	case to == -2:
		receiver = authtypes.NewModuleAddress(authtypes.FeeCollectorName).String()
	}
	data, err := loadABI("ics20").Pack("transfer", src.ep.ChannelConfig.PortID, src.ep.ChannelID, iw.denomOn(fam, c), amt, acct.Eth, receiver,
		ics20Height{rev, uint64(dst.tc.CurrentHeader.Height) + timeoutBlocks}, uint64(0), "")
	if err != nil {
		return nil, fmt.Errorf("harness: pack ics20 transfer: %w", err)
	}
	iw.coord.UpdateTimeForChain(chain)
	ctx := chain.GetContext()
	nonce := src.app.EvmKeeper.GetNonce(ctx, acct.Eth)
	price := new(big.Int).Mul(src.app.FeeMarketKeeper.GetBaseFee(ctx), big.NewInt(2))
	if price.Sign() == 0 {
		price = big.NewInt(1_000_000_000)
	}
	target := addrICS20
	bz, _, err := iw.w.BuildEthTx(acct, e.EthArgs{Type: 2, To: &target, Gas: 3_000_000, Data: data, Nonce: &nonce, GasPrice: price, ChainID: src.app.EvmKeeper.ChainID()})
	if err != nil {
		return nil, fmt.Errorf("harness: build eth tx: %w", err)
	}
	res := chain.App.DeliverTx(abci.RequestDeliverTx{Tx: bz})
	if iw.stats != nil {
		iw.stats.Txs++
		iw.stats.Blocks++
		if res.Code == 0 {
			iw.stats.TxsOK++
		}
	}
	chain.NextBlock()
	iw.coord.IncrementTime()
	iw.syncRelayer(c)
	if res.Code != 0 {
		return nil, fmt.Errorf("eth tx failed: code %d: %s", res.Code, res.Log)
	}
	if r, err := iw.w.EthResponse(e.TxResult{Code: res.Code, Data: res.Data, Log: res.Log}); err != nil || r.Failed() {
		return nil, fmt.Errorf("precompile call failed in the EVM")
	}
	evs := make(sdk.Events, 0, len(res.Events))
	for _, ev := range res.Events {
		evs = append(evs, sdk.Event(ev))
	}
	packet, err := ibcgotesting.ParsePacketFromEvents(evs)
	if err != nil {
		return nil, fmt.Errorf("transfer succeeded without a send_packet event: %w", err)
	}
	p := &ibcPacket{ID: len(iw.pkts), Fam: f, Src: c, From: from, To: to, Amt: new(big.Int).Set(amt), Packet: packet}
	iw.pkts = append(iw.pkts, p)
	return p, nil
}
