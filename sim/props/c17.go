package props

import (
	"fmt"
	"math/big"

	sdk "github.com/cosmos/cosmos-sdk/types"
	banktypes "github.com/cosmos/cosmos-sdk/x/bank/types"
	govtypes "github.com/cosmos/cosmos-sdk/x/gov/types"
	"github.com/ethereum/go-ethereum/common"

	e "haqqsim/engine"

	feemarkettypes "github.com/haqq-network/haqq/x/feemarket/types"
)

// C17 — base fee follows EIP-1559 and stays within its bounds.
//
// World: a load generator aims the block gas below / at / above the target
// (plain 21000-gas transfers make "exactly at target" reachable), declares gas
// it does not use, sends txs that fail in the ante handler (must not count),
// lets a byzantine proposer overfill blocks, changes fee-market parameters by
// governance mid-run and restarts the node between blocks.
// Oracle: reference computes the gas figure g_k from the observed per-tx
// outcomes and then the EIP-1559 step exactly as the statement words it.
type c17 struct{}

func init() { register("C17", func() e.Profile { return &c17{} }) }

func (c17) ID() string { return "C17" }

func (c17) Configure(r *e.RNG, tier string) e.Config {
	c := e.DefaultConfig()
	c.NVals = 1
	c.NAccts = int(r.Range(3, 5))
	c.Elasticity = uint32([]int64{1, 2, 2, 3, 4, 7}[r.Intn(6)])
	c.ChangeDenom = uint32([]int64{1, 2, 8, 8, 50, 1000}[r.Intn(6)])
	n := r.Range(1, 6)
	c.BlockMaxGas = []int64{-1, 21000 * int64(c.Elasticity) * n, 21000 * int64(c.Elasticity) * n, 10_000_000, 21000*int64(c.Elasticity)*n + r.Range(1, 5000)}[r.Intn(5)]
	c.BaseFee = []string{"1000000000", "7", "1", "1000000000000", "123456789"}[r.Intn(5)]
	c.MinGasPrice = []string{"0", "0", "1", "100000000", "999999999"}[r.Intn(5)]
	c.MinGasMult = []string{"0.5", "0", "1", "0.25", "0.999999999999999999"}[r.Intn(5)]
	c.Flags["w_blk"] = r.Range(3, 8)
	c.Flags["w_transfer"] = r.Range(2, 12)
	c.Flags["w_cosmos"] = r.Range(0, 4)
	c.Flags["w_bad"] = r.Range(0, 3)
	c.Flags["w_gov"] = r.Range(0, 2)
	c.Flags["w_crash"] = r.Range(0, 1)
	c.Flags["empty_blocks"] = r.Range(0, 1)
	c.FeeEnableHeight = []int64{0, 0, 0, 2, 3, 6}[r.Intn(6)]
	return c
}

func (c17) Length(cfg e.Config, tier string) int {
	if tier == "thorough" {
		return 300
	}
	return 90
}

func (c17) Tier(tier string) (uint64, int64) {
	if tier == "thorough" {
		return 5000, 2400
	}
	return 256, 300
}

func (c17) MandatoryProbes() []string {
	return []string{"base_fee_step_checked", "g_above_target", "g_below_target"}
}

type c17Tx struct {
	limit   uint64
	used    int64
	wanted  int64
	anteOK  bool
	code    uint32
	preAnte bool
}

type c17Model struct {
	txs []c17Tx
	// captured at the boundary after block k
	have             bool
	base             *big.Int
	params           feemarkettypes.Params
	gCands           map[uint64]bool
	maxGas           int64
	preParams        feemarkettypes.Params
	figureValid      bool
	noBaseFeeAtBegin bool
}

func (c17) Setup(w *e.World) error {
	m := &c17Model{}
	w.Ext["c17"] = m
	w.OnBoundary = func(w *e.World) *e.Violation {
		ctx := w.CommittedCtx()
		p := w.App().FeeMarketKeeper.GetParams(ctx)
		m.base = p.BaseFee.BigInt()
		m.params = p
		m.have = true
		// reference gas figure of the block just committed
		var wantedSum uint64
		var usedSum, usedCapped int64
		for _, t := range m.txs {
			if t.anteOK {
				wantedSum += t.limit
			}
			usedSum += t.used
			u := t.used
			if t.wanted > 0 && u > t.wanted {
				u = t.wanted
			}
			usedCapped += u
		}
		m.gCands = map[uint64]bool{}
		for _, mp := range []feemarkettypes.Params{m.preParams, p} {
			mult := mp.MinGasMultiplier.BigInt() // × 1e18
			lw := new(big.Int).Mul(new(big.Int).SetUint64(wantedSum), mult)
			lw.Quo(lw, scale) // truncation: gas is an integer, "gasWanted x multiplier" floored
			us := []int64{usedSum, usedCapped}
			if m.maxGas > -1 {
				// a block cannot use more gas than its limit (byzantine proposer overfilling)
				for _, u := range []int64{usedSum, usedCapped} {
					if u > m.maxGas {
						us = append(us, m.maxGas)
						w.Stats.Fault("block_overfilled")
					}
				}
			}
			for _, u := range us {
				g := lw.Uint64()
				if uint64(u) > g {
					g = uint64(u)
				}
				m.gCands[g] = true
			}
		}
		stored := w.App().FeeMarketKeeper.GetBlockGasWanted(ctx)
		w.Stats.Oracle++
		// the figure is only defined for blocks executed with the base fee enabled
		m.figureValid = !p.NoBaseFee && !m.preParams.NoBaseFee && !m.noBaseFeeAtBegin && w.Height >= p.EnableHeight && w.Height >= m.preParams.EnableHeight
		if m.figureValid && !m.gCands[stored] {
			return e.Violatef("base-fee-gas-figure", "block-gas-figure-wrong", "block %d: stored gas figure %d, reference max(gasWanted x multiplier, gasUsed) gives %v (sum gasWanted of accepted txs %d, sum gasUsed %d, txs %+v)", w.Height, stored, keysU(m.gCands), wantedSum, usedSum, m.txs)
		}
		if wantedSum > 0 && uint64(usedSum) < wantedSum/2 {
			w.Stats.Probe("declared_gas_not_used")
		}
		m.txs = nil
		return nil
	}
	return nil
}

func keysU(m map[uint64]bool) []uint64 {
	var out []uint64
	for k := range m {
		out = append(out, k)
	}
	return out
}

// baseFeeStep is the statement's function, integer divisions as written.
// T == nil means an unlimited block gas limit.
func baseFeeStep(base *big.Int, g uint64, T *big.Int, denom uint64, minPriceFloor, minPriceCeil *big.Int) []*big.Int {
	G := new(big.Int).SetUint64(g)
	d := new(big.Int).SetUint64(denom)
	switch G.Cmp(T) {
	case 0:
		return []*big.Int{new(big.Int).Set(base)}
	case 1:
		x := new(big.Int).Mul(base, new(big.Int).Sub(G, T))
		x.Quo(x, T)
		x.Quo(x, d)
		if x.Cmp(big.NewInt(1)) < 0 {
			x = big.NewInt(1)
		}
		return []*big.Int{x.Add(x, base)}
	default:
		x := new(big.Int).Mul(base, new(big.Int).Sub(T, G))
		x.Quo(x, T)
		x.Quo(x, d)
		nb := new(big.Int).Sub(base, x)
		var out []*big.Int
		for _, lo := range []*big.Int{minPriceFloor, minPriceCeil} {
			v := new(big.Int).Set(nb)
			if v.Cmp(lo) < 0 {
				v.Set(lo)
			}
			out = append(out, v)
		}
		return out
	}
}

func (c17) checkStep(w *e.World, m *c17Model) *e.Violation {
	if !m.have {
		return nil
	}
	m.have = false
	ctx := w.Ctx()
	now := w.App().FeeMarketKeeper.GetParams(ctx)
	got := now.BaseFee.BigInt()
	w.Stats.Oracle++
	m.noBaseFeeAtBegin = now.NoBaseFee
	if w.Height < now.EnableHeight || w.Height < m.params.EnableHeight {
		return nil // the fee market is not in force yet
	}
	if w.Height == now.EnableHeight {
		// the first block of the fee market starts from the configured base fee
		if got.Cmp(m.base) != 0 {
			return e.Violatef("base-fee-step", "base-fee-at-enable-height-not-initial", "block %d: base fee %s, configured %s", w.Height, got, m.base)
		}
		w.Stats.Probe("enable_height_block")
		return nil
	}
	if now.NoBaseFee || m.params.NoBaseFee {
		if got.Cmp(m.base) != 0 && now.NoBaseFee {
			return e.Violatef("base-fee-step", "base-fee-moved-while-disabled", "block %d: %s -> %s", w.Height, m.base, got)
		}
		return nil
	}
	if !m.figureValid {
		return nil // the parent block ran (partly) with the base fee disabled: its gas figure is undefined
	}
	accept := map[string]bool{}
	for _, p := range []feemarkettypes.Params{m.params, now} {
		var Ts []*big.Int
		if m.maxGas > -1 {
			Ts = append(Ts, new(big.Int).Quo(big.NewInt(m.maxGas), big.NewInt(int64(p.ElasticityMultiplier))))
		} else {
			// unlimited: any representation of "infinite" target
			max64 := new(big.Int).SetUint64(^uint64(0))
			Ts = append(Ts, new(big.Int).Quo(max64, big.NewInt(int64(p.ElasticityMultiplier))), new(big.Int).Lsh(big.NewInt(1), 200))
		}
		fl := p.MinGasPrice.TruncateInt().BigInt()
		ce := p.MinGasPrice.Ceil().TruncateInt().BigInt()
		for _, T := range Ts {
			if T.Sign() == 0 {
				continue
			}
			for g := range m.gCands {
				for _, v := range baseFeeStep(m.base, g, T, uint64(p.BaseFeeChangeDenominator), fl, ce) {
					accept[v.String()] = true
				}
				switch new(big.Int).SetUint64(g).Cmp(T) {
				case 0:
					w.Stats.Probe("g_equals_target")
				case 1:
					w.Stats.Probe("g_above_target")
				default:
					w.Stats.Probe("g_below_target")
				}
			}
		}
	}
	w.Stats.Probe("base_fee_step_checked")
	if !accept[got.String()] {
		return e.Violatef("base-fee-step", "base-fee-not-eip1559", "block %d: parent base fee %s, gas figure %v, block max gas %d, elasticity %d, denominator %d, min gas price %s: base fee is %s, reference accepts %v",
			w.Height, m.base, keysU(m.gCands), m.maxGas, m.params.ElasticityMultiplier, m.params.BaseFeeChangeDenominator, m.params.MinGasPrice, got, e.SortedKeys(accept))
	}
	if got.Cmp(now.MinGasPrice.TruncateInt().BigInt()) < 0 && got.Cmp(m.base) < 0 {
		return e.Violatef("base-fee-step", "base-fee-lowered-below-min-gas-price", "block %d: base fee %s < min gas price %s", w.Height, got, now.MinGasPrice)
	}
	if got.Cmp(m.base) == 0 {
		w.Stats.State("unchanged")
	} else if got.Cmp(m.base) > 0 {
		w.Stats.State("raised")
	} else {
		w.Stats.State("lowered")
	}
	if got.Cmp(now.MinGasPrice.TruncateInt().BigInt()) == 0 && got.Cmp(m.base) < 0 {
		w.Stats.Probe("clamped_at_min_gas_price")
	}
	return nil
}

func (c17) Gen(w *e.World, r *e.RNG) e.Step {
	f := w.Cfg.Flags
	switch r.Weighted([]int{int(f["w_blk"]), int(f["w_transfer"]), int(f["w_cosmos"]), int(f["w_bad"]), int(f["w_gov"]), int(f["w_crash"])}) {
	case 0:
		return e.BlkStep(r.Range(1, 6000), nil)
	case 1:
		// exact 21000 or over-declared gas
		gas := int64(21000)
		if r.Chance(0.4) {
			gas = r.Range(21000, 400000)
		}
		return e.Step{K: "tx", Op: "transfer", A: r.Intn(nAcc(w)), B: r.Intn(nAcc(w)), N: []int64{int64(r.Intn(3)), gas, r.Range(0, 3)}, S: []string{r.Amount(big.NewInt(1_000_000)).String()}}
	case 2:
		return e.Step{K: "tx", Op: "cosmos", A: r.Intn(nAcc(w)), B: r.Intn(nAcc(w)), N: []int64{r.Range(80_000, 2_000_000)}, S: []string{"1"}}
	case 3:
		// fails in the ante handler: price below base fee / wrong nonce / gas above block limit
		return e.Step{K: "tx", Op: "bad", A: r.Intn(nAcc(w)), B: r.Intn(nAcc(w)), N: []int64{int64(r.Intn(3)), r.Range(21000, 300000)}}
	case 4:
		return e.Step{K: "gov", N: []int64{int64(r.Intn(5)), r.Range(0, 6)}}
	default:
		if w.Height < 2 {
			return e.BlkStep(1000, nil)
		}
		return e.Step{K: "crash", A: 0}
	}
}

func (p c17) Exec(w *e.World, st *e.Step) *e.Violation {
	m := w.Ext["c17"].(*c17Model)
	rec := func(limit uint64, res e.TxResult) {
		m.txs = append(m.txs, c17Tx{limit: limit, used: res.GasUsed, wanted: res.GasWanted, anteOK: len(res.Events) > 0, code: res.Code})
	}
	switch st.K {
	case "blk":
		m.preParams = w.App().FeeMarketKeeper.GetParams(w.Ctx())
		if cp := w.App().BaseApp.GetConsensusParams(w.Ctx()); cp != nil && cp.Block != nil {
			m.maxGas = cp.Block.MaxGas
		} else {
			m.maxGas = w.Cfg.BlockMaxGas
		}
		w.MustBlk(st)
		return p.checkStep(w, m)
	case "crash":
		if v, ok := ExecCommon(w, st); ok {
			return v
		}
	case "gov":
		ctx := w.Ctx()
		fp := w.App().FeeMarketKeeper.GetParams(ctx)
		switch st.NArg(0) {
		case 0:
			fp.MinGasMultiplier = sdk.NewDecWithPrec(st.NArg(1)*15, 2)
		case 1:
			fp.ElasticityMultiplier = uint32(1 + st.NArg(1))
		case 2:
			fp.BaseFeeChangeDenominator = uint32(1 + 7*st.NArg(1))
		case 3:
			fp.MinGasPrice = sdk.NewDec(st.NArg(1) * 50_000_000)
		default:
			fp.NoBaseFee = st.NArg(1)%2 == 0
		}
		if fp.Validate() != nil {
			return nil
		}
		a := w.Acct(len(w.Accts) - 1)
		_ = a
		// the proposal and the votes are ordinary txs of this block
		pre := len(w.BlockTxs)
		govPass(w, []sdk.Msg{&feemarkettypes.MsgUpdateParams{Authority: e.ModuleAddr(govtypes.ModuleName).String(), Params: fp}})
		for i := pre; i < len(w.BlockRes); i++ {
			rec(w.DefaultGas(), w.BlockRes[i])
		}
	case "tx":
		a, b := w.Acct(st.A), w.Acct(st.B)
		to := common.Address(b.Eth)
		switch st.Op {
		case "transfer":
			price := w.GasPriceNow()
			price.Add(price, big.NewInt(st.NArg(2)))
			bz, _, err := w.BuildEthTx(a, e.EthArgs{Type: int(st.NArg(0)), To: &to, Value: e.BigS(st.SArg(0)), Gas: uint64(st.NArg(1)), GasPrice: price})
			if err != nil {
				return nil
			}
			res := w.DeliverTx(bz)
			w.Stats.Op("transfer", res.Code == 0)
			rec(uint64(st.NArg(1)), res)
		case "cosmos":
			gas := uint64(st.NArg(0))
			bz, err := w.BuildCosmosTx(a, e.TxOpts{Gas: gas}, banktypes.NewMsgSend(a.Acc, b.Acc, e.Native(big.NewInt(1))))
			if err != nil {
				return nil
			}
			res := w.DeliverTx(bz)
			w.Stats.Op("cosmos", res.Code == 0)
			rec(gas, res)
		case "bad":
			args := e.EthArgs{Type: 2, To: &to, Value: big.NewInt(1), Gas: uint64(st.NArg(1))}
			switch st.NArg(0) {
			case 0:
				p := w.GasPriceNow()
				if p.Sign() == 0 {
					return nil
				}
				args.GasPrice = p.Sub(p, big.NewInt(1))
			case 1:
				n := w.EthNonce(a.Eth) + 3
				args.Nonce = &n
			default:
				args.Gas = 1 << 40
			}
			bz, _, err := w.BuildEthTx(a, args)
			if err != nil {
				return nil
			}
			res := w.DeliverTx(bz)
			w.Stats.Op("bad", res.Code == 0)
			if res.Code != 0 {
				w.Stats.Fault("tx_fails_in_ante")
			}
			rec(args.Gas, res)
		}
	}
	return nil
}

func (p c17) Final(w *e.World) *e.Violation {
	m := w.Ext["c17"].(*c17Model)
	for i := 0; i < 3; i++ {
		st := e.BlkStep(2000, nil)
		if v := p.Exec(w, &st); v != nil {
			return v
		}
	}
	_ = fmt.Sprint(m)
	return nil
}
