package props

import (
	"fmt"
	"math/big"

	sdk "github.com/cosmos/cosmos-sdk/types"
	authtypes "github.com/cosmos/cosmos-sdk/x/auth/types"
	govtypes "github.com/cosmos/cosmos-sdk/x/gov/types"
	govv1 "github.com/cosmos/cosmos-sdk/x/gov/types/v1"
	paramproposal "github.com/cosmos/cosmos-sdk/x/params/types/proposal"

	e "haqqsim/engine"

	coinomicstypes "github.com/haqq-network/haqq/x/coinomics/types"
)

// C13 — coinomics mints the formula amount and never exceeds the cap.
//
// The schedule is the sequence of block timestamps (1 ms steps, multi-day gaps,
// blocks straddling 31 Dec -> 1 Jan of leap / non-leap / century years), bonded
// stake moved by delegations, undelegations and slashing, governance changing
// the coefficient and toggling minting, and a cap drawn just above the supply.
// Oracle: an independent 18-decimal fixed-point reference evaluated for every
// block; the accepted set contains the value of every evaluation order.
type c13 struct{}

func init() { register("C13", func() e.Profile { return &c13{} }) }

func (c13) ID() string { return "C13" }

// year boundaries (unix seconds of 1 Jan 00:00:00 UTC)
var c13Boundaries = []int64{
	1704067200, // 2024-01-01 (non-leap 2023 -> leap 2024)
	1735689600, // 2025-01-01 (leap 2024 -> non-leap 2025)
	1830297600, // 2028-01-01 (-> leap 2028)
	4102444800, // 2100-01-01 (leap 2096.. -> 2100 is NOT a leap year)
	4133980800, // 2101-01-01
}

func (c13) Configure(r *e.RNG, tier string) e.Config {
	c := e.DefaultConfig()
	c.NVals = int(r.Range(1, 3))
	c.NAccts = c.NVals + 2
	c.Coinomics = r.Chance(0.8)
	c.RewardCoeff = []string{"7.8", "0.000000000000000001", "100", "3.333333333333333333", "50", "0"}[r.Intn(6)]
	c.ValStake = []string{"1000000000000000000000", "1000000000000000000", "123456789012345678901234567", "1999999999999999999"}[r.Intn(4)]
	c.GovVotingSecs = r.Range(1, 20)
	c.UnbondingSecs = 1_814_400
	c.SlashWindow = r.Range(3, 8)
	if r.Chance(0.6) {
		b := c13Boundaries[r.Intn(len(c13Boundaries))]
		c.GenesisUnix = b - r.Range(1, 400_000)
	}
	// cap: far away, or just above the genesis supply so that it is crossed mid-run
	c.Flags["cap_mode"] = int64(r.Weighted([]int{5, 3, 1, 1}))
	c.Flags["w_blk"] = r.Range(8, 16)
	c.Flags["w_stake"] = r.Range(0, 4)
	c.Flags["w_gov"] = r.Range(0, 3)
	c.Flags["p_absent"] = r.Range(0, 30)
	c.Flags["p_evidence"] = r.Range(0, 8)
	c.Flags["year_jump"] = r.Range(0, 1)
	// genesis supply = accounts + stakes; the cap is set relative to it in MaxSupply
	supply := new(big.Int).Mul(e.BigS(c.AcctBalance), big.NewInt(int64(c.NAccts)))
	for i := 1; i <= c.NVals; i++ {
		supply.Add(supply, new(big.Int).Mul(e.BigS(c.ValStake), big.NewInt(int64(i))))
	}
	switch c.Flags["cap_mode"] {
	case 1:
		c.MaxSupply = new(big.Int).Add(supply, r.Amount(e.BigS("100000000000000000000"))).String()
	case 2:
		c.MaxSupply = supply.String() // exactly at the cap
	case 3:
		c.MaxSupply = new(big.Int).Sub(supply, big.NewInt(r.Range(1, 1000))).String() // already above
		if r.Chance(0.3) {
			c.MaxSupply = "0" // a maximum of zero is still a maximum: every supply is above it
		}
	}
	return c
}

func (c13) Length(cfg e.Config, tier string) int {
	if tier == "thorough" {
		return 200
	}
	return 60
}

func (c13) Tier(tier string) (uint64, int64) {
	if tier == "thorough" {
		return 6000, 2400
	}
	return 320, 300
}

func (c13) MandatoryProbes() []string {
	return []string{"mint_block_checked", "nonzero_mint"}
}

type c13Model struct {
	lastTime    int64 // unix ms of the previous block
	activatedAt int64 // height in which minting was switched on (0: never / long ago)
	pre         c13Obs
	preHeight   int64
}

type c13Obs struct {
	supply, fc, bonded, coin *big.Int
	enabled                  bool
	coeff                    *big.Int // coefficient (percent) × 1e18
	max                      *big.Int
}

func c13Observe(w *e.World, ctx sdk.Context) c13Obs {
	a := w.App()
	p := a.CoinomicsKeeper.GetParams(ctx)
	return c13Obs{
		supply:  a.BankKeeper.GetSupply(ctx, e.Denom).Amount.BigInt(),
		fc:      a.BankKeeper.GetBalance(ctx, e.ModuleAddr(authtypes.FeeCollectorName), e.Denom).Amount.BigInt(),
		coin:    a.BankKeeper.GetBalance(ctx, e.ModuleAddr(coinomicstypes.ModuleName), e.Denom).Amount.BigInt(),
		bonded:  a.StakingKeeper.TotalBondedTokens(ctx).BigInt(),
		enabled: p.EnableCoinomics,
		coeff:   p.RewardCoefficient.BigInt(),
		max:     a.CoinomicsKeeper.GetMaxSupply(ctx).Amount.BigInt(),
	}
}

func (c13) Setup(w *e.World) error {
	m := &c13Model{lastTime: 0}
	w.Ext["c13"] = m
	w.OnBoundary = func(w *e.World) *e.Violation { return c13Check(w, m) }
	return nil
}

var scale = new(big.Int).Exp(big.NewInt(10), big.NewInt(18), nil)

// roundQuo returns a/b rounded half to even (a, b >= 0, b > 0).
func roundQuo(a, b *big.Int) *big.Int {
	q, rem := new(big.Int).QuoRem(a, b, new(big.Int))
	twice := new(big.Int).Lsh(rem, 1)
	switch twice.Cmp(b) {
	case 1:
		q.Add(q, big.NewInt(1))
	case 0:
		if q.Bit(0) == 1 {
			q.Add(q, big.NewInt(1))
		}
	}
	return q
}

func fmul(a, b *big.Int) *big.Int { return roundQuo(new(big.Int).Mul(a, b), scale) }
func fquo(a, b *big.Int) *big.Int { return roundQuo(new(big.Int).Mul(a, scale), b) }
func fdec(x *big.Int) *big.Int    { return new(big.Int).Mul(x, scale) }

// mintSet returns every value "bonded × coeff% × elapsed / year, evaluated in
// 18-decimal fixed point and rounded to the nearest unit" can take, over all
// orders in which the products and quotients can be taken.
func mintSet(bonded, coeffDec *big.Int, elapsedMs, yearMs int64) map[string]bool {
	B, c, h := fdec(bonded), coeffDec, fdec(big.NewInt(100))
	el, Y := fdec(big.NewInt(elapsedMs)), fdec(big.NewInt(yearMs))
	c100 := fquo(c, h)
	eY := fquo(el, Y)
	vals := []*big.Int{
		fmul(fmul(B, c100), eY),
		fmul(B, fmul(c100, eY)),
		fquo(fmul(fmul(B, c100), el), Y),
		fmul(fquo(fmul(B, el), Y), c100),
		fquo(fmul(fmul(B, c), el), fmul(h, Y)),
		fquo(fquo(fmul(fmul(B, c), el), h), Y),
		fmul(fmul(B, c), fquo(el, fmul(h, Y))),
		fmul(fquo(fmul(B, c), h), eY),
		fmul(fmul(B, eY), c100),
		fmul(fmul(c100, eY), B),
	}
	out := map[string]bool{}
	for _, v := range vals {
		out[roundQuo(v, scale).String()] = true
	}
	// exact rational, rounded once
	num := new(big.Int).Mul(bonded, c)
	num.Mul(num, big.NewInt(elapsedMs))
	den := new(big.Int).Mul(scale, big.NewInt(100))
	den.Mul(den, big.NewInt(yearMs))
	out[roundQuo(num, den).String()] = true
	return out
}

func yearMsOf(unixMs int64) int64 {
	y := timeYear(unixMs)
	leap := (y%4 == 0 && y%100 != 0) || y%400 == 0
	if leap {
		return 366 * 86400 * 1000
	}
	return 365 * 86400 * 1000
}

// timeYear computes the UTC year of a unix-millisecond instant with integer
// arithmetic only (civil-from-days), independent of package time.
func timeYear(unixMs int64) int64 {
	days := unixMs / 86400000
	if unixMs < 0 && unixMs%86400000 != 0 {
		days--
	}
	z := days + 719468
	era := z / 146097
	if z < 0 {
		era = (z - 146096) / 146097
	}
	doe := z - era*146097
	yoe := (doe - doe/1460 + doe/36524 - doe/146096) / 365
	y := yoe + era*400
	doy := doe - (365*yoe + yoe/4 - yoe/100)
	mp := (5*doy + 2) / 153
	m := mp + 3
	if m > 12 {
		m -= 12
	}
	if m <= 2 {
		y++
	}
	return y
}

// c13Check runs at the boundary: the block w.Height was just committed.
func c13Check(w *e.World, m *c13Model) *e.Violation {
	if m.preHeight != w.Height {
		return nil // pre-state was not captured (setup blocks)
	}
	pre := m.pre
	post := c13Observe(w, w.CommittedCtx())
	now := w.Now.UnixMilli()
	defer func() { m.lastTime = now }()
	w.Stats.Oracle++
	w.Stats.Probe("mint_block_checked")
	mint := new(big.Int).Sub(post.supply, pre.supply)
	dfc := new(big.Int).Sub(post.fc, pre.fc)
	k := w.Height
	activatedNow := !pre.enabled && post.enabled
	reactivatedPrev := m.activatedAt != 0 && m.activatedAt == k-1
	if activatedNow {
		m.activatedAt = k
		w.Stats.Probe("activated_by_governance")
	}
	ctxStr := fmt.Sprintf("block %d t=%dms dt=%dms bonded=%s/%s coeff=%s/%s enabled=%v/%v supply=%s max=%s", k, now, now-m.lastTime, pre.bonded, post.bonded, pre.coeff, post.coeff, pre.enabled, post.enabled, pre.supply, pre.max)
	if mint.Sign() < 0 {
		return e.Violatef("coinomics-mint", "supply-decreased-in-endblock", "%s: supply fell by %s", ctxStr, new(big.Int).Neg(mint))
	}
	if dfc.Cmp(mint) != 0 {
		return e.Violatef("coinomics-mint", "minted-coins-not-all-to-fee-collector", "%s: supply +%s but fee collector +%s (coinomics module holds %s)", ctxStr, mint, dfc, post.coin)
	}
	if pre.supply.Cmp(pre.max) <= 0 && post.supply.Cmp(pre.max) > 0 {
		return e.Violatef("coinomics-cap", "supply-lifted-above-max", "%s: supply after %s > max", ctxStr, post.supply)
	}
	accept := map[string]bool{}
	why := ""
	zero := func() { accept["0"] = true }
	switch {
	case !pre.enabled: // disabled, or activated in this very block: nothing may be minted
		zero()
		why = "disabled-or-activated-now"
	case k == 1 || m.lastTime == 0:
		zero()
		why = "first-block-after-genesis-activation"
	default:
		if reactivatedPrev {
			zero() // this may count as the first block after activation
			why = "first-block-after-reactivation"
		} else {
			why = "regular"
		}
		if !post.enabled && pre.enabled {
			// switched off in this block: by the cap (handled below) or by governance
			// (whose EndBlocker may run before minting): zero is acceptable
			zero()
		}
		el := now - m.lastTime
		for _, b := range []*big.Int{pre.bonded, post.bonded} {
			for _, c := range []*big.Int{pre.coeff, post.coeff} {
				for v := range mintSet(b, c, el, yearMsOf(now)) {
					x := e.BigS(v)
					// cap: the block that would cross the maximum mints only the remainder
					if new(big.Int).Add(pre.supply, x).Cmp(pre.max) > 0 {
						rem := new(big.Int).Sub(pre.max, pre.supply)
						if rem.Sign() < 0 {
							rem = new(big.Int)
						}
						x = rem
						w.Stats.Probe("cap_crossing_block")
					}
					accept[x.String()] = true
				}
			}
		}
	}
	if mint.Sign() > 0 {
		w.Stats.Probe("nonzero_mint")
	}
	if !accept[mint.String()] {
		var acc []string
		for _, kx := range e.SortedKeys(accept) {
			if len(acc) < 6 {
				acc = append(acc, kx)
			}
		}
		return e.Violatef("coinomics-mint", "mint-amount-wrong:"+why, "%s: minted %s, reference accepts %v", ctxStr, mint, acc)
	}
	// the block that crossed the cap must have switched minting off
	if pre.enabled && mint.Sign() > 0 && new(big.Int).Add(pre.supply, mint).Cmp(pre.max) == 0 && pre.supply.Cmp(pre.max) < 0 {
		w.Stats.Probe("cap_reached")
	}
	if post.supply.Cmp(pre.max) > 0 && pre.enabled && post.enabled && mint.Sign() > 0 {
		return e.Violatef("coinomics-cap", "minting-continues-above-max", "%s", ctxStr)
	}
	w.Stats.State(fmt.Sprintf("%s,leap=%v,cap=%d", why, yearMsOf(now) == 366*86400*1000, w.Cfg.Flag("cap_mode")))
	return nil
}

func (c13) Gen(w *e.World, r *e.RNG) e.Step {
	f := w.Cfg.Flags
	switch r.Weighted([]int{int(f["w_blk"]), int(f["w_stake"]), int(f["w_gov"])}) {
	case 0:
		st := genBlk(w, r)
		// bias: jump to just before / exactly at / just after the next year boundary
		if r.Chance(0.15) {
			now := w.Now.UnixMilli()
			for _, b := range c13Boundaries {
				if b*1000 > now && b*1000-now < 40*86400*1000 {
					st.Dt = b*1000 - now + []int64{-1, 0, 1, 1000, -1000}[r.Intn(5)]
					if st.Dt <= 0 {
						st.Dt = 1
					}
					break
				}
			}
		}
		if f["year_jump"] == 0 && st.Dt > 40*86400*1000 {
			st.Dt = r.Range(1000, 10000)
		}
		return st
	case 1:
		ops := []string{"delegate", "undelegate", "redelegate", "send"}
		return Ops[ops[r.Intn(len(ops))]].Gen(w, r)
	default:
		// governance: change the coefficient or toggle minting; validators vote in the same block
		kind := int64(r.Intn(3))
		coeffs := []string{"7.8", "0.5", "100", "1.000000000000000001", "33.333333333333333333"}
		return e.Step{K: "gov", N: []int64{kind, int64(r.Intn(2))}, S: []string{coeffs[r.Intn(len(coeffs))]}}
	}
}

// govPass submits a proposal with the given messages and lets every validator
// operator vote yes in the same block; it passes when the voting period ends.
func govPass(w *e.World, msgs []sdk.Msg) bool {
	a := w.Acct(len(w.Accts) - 1)
	id, err := w.App().GovKeeper.GetProposalID(w.Ctx())
	if err != nil {
		return false
	}
	m, err := govv1.NewMsgSubmitProposal(msgs, e.Native(e.BigS(w.Cfg.GovMinDeposit)), a.Acc.String(), "", "t", "s")
	if err != nil {
		return false
	}
	res, err := w.DoCosmos(a, e.TxOpts{}, m)
	if err != nil || res.Code != 0 {
		return false
	}
	for i := range w.Vals {
		v := w.Acct(w.Vals[i].Operator)
		w.DoCosmos(v, e.TxOpts{}, govv1.NewMsgVote(v.Acc, id, govv1.OptionYes, ""))
	}
	w.Stats.Fault("governance_param_change")
	return true
}

func (p c13) Exec(w *e.World, st *e.Step) *e.Violation {
	m := w.Ext["c13"].(*c13Model)
	switch st.K {
	case "blk":
		m.pre = c13Observe(w, w.Ctx())
		m.preHeight = w.Height
		w.MustBlk(st)
		return nil
	case "tx":
		ExecOp(w, st)
	case "gov":
		auth := e.ModuleAddr(govtypes.ModuleName).String()
		key, val := string(coinomicstypes.ParamStoreKeyRewardCoefficient), fmt.Sprintf("%q", st.SArg(0))
		switch st.NArg(0) {
		case 1:
			key, val = string(coinomicstypes.ParamStoreKeyEnableCoinomics), "true"
		case 2:
			key, val = string(coinomicstypes.ParamStoreKeyEnableCoinomics), "false"
		}
		if _, err := sdk.NewDecFromStr(st.SArg(0)); err != nil && st.NArg(0) == 0 {
			return nil
		}
		content := paramproposal.NewParameterChangeProposal("p", "d", []paramproposal.ParamChange{{Subspace: coinomicstypes.ModuleName, Key: key, Value: val}})
		lm, err := legacyContent(content, auth)
		if err != nil {
			return nil
		}
		govPass(w, []sdk.Msg{lm})
	}
	return nil
}

func (c13) Final(w *e.World) *e.Violation {
	m := w.Ext["c13"].(*c13Model)
	for i := 0; i < 3; i++ {
		m.pre = c13Observe(w, w.Ctx())
		m.preHeight = w.Height
		st := e.BlkStep(2000, nil)
		w.MustBlk(&st)
	}
	return nil
}
