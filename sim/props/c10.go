package props

import (
	"encoding/json"
	"fmt"
	"math/big"
	"strings"

	sdkmath "cosmossdk.io/math"
	sdk "github.com/cosmos/cosmos-sdk/types"
	banktypes "github.com/cosmos/cosmos-sdk/x/bank/types"
	govtypes "github.com/cosmos/cosmos-sdk/x/gov/types"
	"github.com/ethereum/go-ethereum/accounts/abi"
	"github.com/ethereum/go-ethereum/common"
	"github.com/ethereum/go-ethereum/crypto"

	e "haqqsim/engine"
	"haqqsim/evmprog"

	"github.com/haqq-network/haqq/contracts"
	erc20types "github.com/haqq-network/haqq/x/erc20/types"
	evmtypes "github.com/haqq-network/haqq/x/evm/types"
)

// C10 — ERC20 <-> coin conversion keeps a 1:1 backed peg.
//
// Pairs: a coin-origin pair registered by governance (utest), liquid-vesting
// denominations (register themselves), and three ERC20-origin pairs over the
// repository's compiled artefacts: an honest token, the delayed-malicious token
// (grants a thief an allowance on every transfer) and the direct-balance-
// manipulation token (moves half of every transfer elsewhere).
// Ops: MsgConvertCoin, MsgConvertERC20, ERC20 transfer to the module address
// (hook path), bank MsgSend of a paired denom (wrapper path), plain ERC20
// transfers, holders burning their own tokens, conversion toggles by
// governance, restarts. Oracle after every tx and block: the backing
// inequality per pair and the per-conversion delta identity.
type c10 struct{}

// (registered through c10mux in c10ibc.go, which adds the two-chain IBC runs)

func (c10) ID() string { return "C10" }

func (c10) Configure(r *e.RNG, tier string) e.Config {
	c := e.DefaultConfig()
	c.NVals = 1
	c.NAccts = int(r.Range(4, 5))
	c.ExtraDenoms = []string{"utest"}
	c.NoBaseFee = r.Chance(0.5)
	c.GovVotingSecs = 3
	c.LVMinimum = "1"
	c.Flags["w_blk"] = r.Range(2, 5)
	c.Flags["w_convert_coin"] = r.Range(2, 6)
	c.Flags["w_convert_erc20"] = r.Range(2, 6)
	c.Flags["w_erc20_transfer"] = r.Range(1, 5)
	c.Flags["w_bank_send"] = r.Range(1, 5)
	c.Flags["w_burn"] = r.Range(0, 2)
	c.Flags["w_toggle"] = r.Range(0, 1)
	c.Flags["w_liquid"] = r.Range(0, 3)
	c.Flags["w_crash"] = r.Range(0, 1)
	return c
}

func (c10) Length(cfg e.Config, tier string) int {
	if tier == "thorough" {
		return 250
	}
	return 80
}

func (c10) Tier(tier string) (uint64, int64) {
	if tier == "thorough" {
		return 2500, 2400
	}
	return 128, 300
}

func (c10) MandatoryProbes() []string {
	return []string{"backing_checked", "coin_to_erc20_converted", "erc20_to_coin_converted", "hook_conversion", "bank_send_wrapper_used"}
}

type c10Token struct {
	name     string
	addr     common.Address
	abi      abi.ABI
	kind     string // honest | delayed | direct
	deployer int
}

type c10Model struct {
	tokens []c10Token
	burned map[string]*big.Int // denom -> burned by holders (coin-origin pairs)
	// batch: a frame-interpreter contract that holds tokens and makes several token
	// calls in ONE transaction (several Transfer logs from several contracts), and
	// an honest token that is never registered
	batcher common.Address
	zed     common.Address
}

func c10m(w *e.World) *c10Model { return w.Ext["c10"].(*c10Model) }

func (c10) Setup(w *e.World) error {
	m := &c10Model{burned: map[string]*big.Int{}}
	w.Ext["c10"] = m
	depIdx := len(w.Accts) - 1
	dep := w.Acct(depIdx)
	big24 := e.BigS("1000000000000000000000000")
	deploy := func(name, kind string, cc evmtypes.CompiledContract, args ...interface{}) error {
		ctor, err := cc.ABI.Pack("", args...)
		if err != nil {
			return err
		}
		nonce := w.EthNonce(dep.Eth)
		res, err := w.DoEth(dep, e.EthArgs{Type: 2, Data: append(append([]byte{}, cc.Bin...), ctor...), Gas: 5_000_000})
		if err != nil || res.Code != 0 {
			return fmt.Errorf("deploy %s: %v %s", name, err, res.Log)
		}
		if r, err := w.EthResponse(res); err != nil || r.Failed() {
			return fmt.Errorf("deploy %s: vm error", name)
		}
		m.tokens = append(m.tokens, c10Token{name: name, addr: crypto.CreateAddress(dep.Eth, nonce), abi: cc.ABI, kind: kind, deployer: depIdx})
		return nil
	}
	if err := deploy("HON", "honest", contracts.ERC20MinterBurnerDecimalsContract, "Honest", "HON", uint8(18)); err != nil {
		return err
	}
	if err := deploy("DELAYED", "delayed", contracts.ERC20MaliciousDelayedContract, big24); err != nil {
		return err
	}
	if err := deploy("DIRECT", "direct", contracts.ERC20DirectBalanceManipulationContract, big24); err != nil {
		return err
	}
	// the batching contract and the unregistered token
	{
		nonce := w.EthNonce(dep.Eth)
		res, err := w.DoEth(dep, e.EthArgs{Type: 2, Data: evmprog.Deployer(evmprog.FIC()), Gas: 1_000_000})
		if err != nil || res.Code != 0 {
			return fmt.Errorf("deploy batcher: %v %s", err, res.Log)
		}
		m.batcher = crypto.CreateAddress(dep.Eth, nonce)
		cc := contracts.ERC20MinterBurnerDecimalsContract
		ctor, _ := cc.ABI.Pack("", "Zed", "ZED", uint8(18))
		nonce = w.EthNonce(dep.Eth)
		res, err = w.DoEth(dep, e.EthArgs{Type: 2, Data: append(append([]byte{}, cc.Bin...), ctor...), Gas: 5_000_000})
		if err != nil || res.Code != 0 {
			return fmt.Errorf("deploy ZED: %v %s", err, res.Log)
		}
		m.zed = crypto.CreateAddress(dep.Eth, nonce)
		data, _ := cc.ABI.Pack("mint", m.batcher, e.BigS("5000000000000000000000"))
		z := m.zed
		w.DoEth(dep, e.EthArgs{Type: 2, To: &z, Data: data, Gas: 300_000})
	}
	// distribute tokens: mint (honest) / transfer (others) to every account and to the batcher
	for i := 0; i <= len(w.Accts); i++ {
		to := m.batcher
		if i < len(w.Accts) {
			to = w.Acct(i).Eth
		}
		for ti, t := range m.tokens {
			method := "transfer"
			if ti == 0 {
				method = "mint"
			}
			data, err := t.abi.Pack(method, to, e.BigS("5000000000000000000000"))
			if err != nil {
				return err
			}
			addr := t.addr
			w.DoEth(dep, e.EthArgs{Type: 2, To: &addr, Data: data, Gas: 300_000})
		}
	}
	// governance: register the three ERC20s and the utest coin
	var addrs []string
	for _, t := range m.tokens {
		addrs = append(addrs, t.addr.Hex())
	}
	auth := e.ModuleAddr(govtypes.ModuleName).String()
	p1, err := legacyContent(erc20types.NewRegisterERC20Proposal("t", "d", addrs...), auth)
	if err != nil {
		return err
	}
	meta := banktypes.Metadata{Description: "test coin", Base: "utest", Display: "test", Name: "utest", Symbol: "TEST",
		DenomUnits: []*banktypes.DenomUnit{{Denom: "utest", Exponent: 0}, {Denom: "test", Exponent: 6}}}
	p2, err := legacyContent(erc20types.NewRegisterCoinProposal("t", "d", meta), auth)
	if err != nil {
		return err
	}
	if !govPass(w, []sdk.Msg{p1}) || !govPass(w, []sdk.Msg{p2}) {
		return fmt.Errorf("governance setup failed")
	}
	for i := 0; i < 3; i++ {
		st := e.BlkStep(2500, nil)
		w.MustBlk(&st)
	}
	if n := len(w.App().Erc20Keeper.GetTokenPairs(w.Ctx())); n < 4 {
		return fmt.Errorf("expected 4 token pairs after setup, have %d", n)
	}
	return nil
}

// c10Call is one token call of a batch.
type c10Call struct {
	Tok int    `json:"tok"` // pair index, -1: the unregistered token
	To  int    `json:"to"`  // account index, -1: the erc20 module address
	Amt string `json:"amt"`
}

// hexResolver resolves "0x…" targets and hex call data for the frame interpreter.
type hexResolver struct{}

func (hexResolver) Address(t string) (common.Address, bool) {
	return common.HexToAddress(t), strings.HasPrefix(t, "0x")
}
func (hexResolver) CallData(n *evmprog.Node) ([]byte, bool) {
	return common.FromHex(n.Data), n.Data != ""
}

func pairs(w *e.World) []erc20types.TokenPair { return w.App().Erc20Keeper.GetTokenPairs(w.Ctx()) }

func erc20Bal(w *e.World, contract, who common.Address) *big.Int {
	b := w.App().Erc20Keeper.BalanceOf(w.Ctx(), contracts.ERC20MinterBurnerDecimalsContract.ABI, contract, who)
	if b == nil {
		return new(big.Int)
	}
	return b
}

func erc20Supply(w *e.World, contract common.Address) *big.Int {
	a := contracts.ERC20MinterBurnerDecimalsContract.ABI
	res, err := w.App().Erc20Keeper.CallEVM(w.Ctx(), a, erc20types.ModuleAddress, contract, false, "totalSupply")
	if err != nil {
		return nil
	}
	out, err := a.Unpack("totalSupply", res.Ret)
	if err != nil || len(out) == 0 {
		return nil
	}
	return out[0].(*big.Int)
}

func (c10) Gen(w *e.World, r *e.RNG) e.Step {
	f := w.Cfg.Flags
	ps := pairs(w)
	a := r.Intn(nAcc(w))
	b := w.AnyAcct(r)
	pi := 0
	if len(ps) > 0 {
		pi = r.Intn(len(ps))
	}
	amt := func(max *big.Int) string { return r.Amount(max).String() }
	switch r.Weighted([]int{int(f["w_blk"]), int(f["w_convert_coin"]), int(f["w_convert_erc20"]), int(f["w_erc20_transfer"]), int(f["w_bank_send"]), int(f["w_burn"]), int(f["w_toggle"]), int(f["w_liquid"]), int(f["w_crash"])}) {
	case 0:
		return e.BlkStep(r.Range(500, 5000), nil)
	case 1:
		max := new(big.Int)
		if len(ps) > 0 {
			max = w.App().BankKeeper.GetBalance(w.Ctx(), w.Acct(a).Acc, ps[pi].Denom).Amount.BigInt()
		}
		return e.Step{K: "tx", Op: "convert_coin", A: a, B: b, N: []int64{int64(pi)}, S: []string{amt(max)}}
	case 2:
		max := new(big.Int)
		if len(ps) > 0 {
			max = erc20Bal(w, ps[pi].GetERC20Contract(), w.Acct(a).Eth)
		}
		return e.Step{K: "tx", Op: "convert_erc20", A: a, B: b, N: []int64{int64(pi)}, S: []string{amt(max)}}
	case 3:
		max := new(big.Int)
		if len(ps) > 0 {
			max = erc20Bal(w, ps[pi].GetERC20Contract(), w.Acct(a).Eth)
		}
		toModule := int64(0)
		if r.Chance(0.5) {
			toModule = 1
		}
		if r.Chance(0.2) {
			// several token calls in one transaction through the batching contract:
			// registered tokens and the unregistered one, to the module address or accounts
			var calls []c10Call
			for i := 2 + r.Intn(3); i > 0; i-- {
				c := c10Call{Tok: r.Intn(len(ps) + 2), To: w.AnyAcct(r), Amt: big.NewInt(r.Range(1, 100000)).String()}
				if r.Chance(0.6) {
					c.To = -1 // the erc20 module address
				}
				if r.Chance(0.35) {
					c.Tok = -1 // the unregistered token
				}
				calls = append(calls, c)
			}
			pp, _ := json.Marshal(calls)
			return e.Step{K: "tx", Op: "erc20_batch", A: a, P: pp}
		}
		if r.Chance(0.2) {
			// an allowance (towards the module address or an account) moves nothing
			return e.Step{K: "tx", Op: "erc20_approve", A: a, B: b, N: []int64{int64(pi), toModule}, S: []string{amt(max)}}
		}
		return e.Step{K: "tx", Op: "erc20_transfer", A: a, B: b, N: []int64{int64(pi), toModule}, S: []string{amt(max)}}
	case 4:
		max := new(big.Int)
		if len(ps) > 0 {
			max = new(big.Int).Add(w.App().BankKeeper.GetBalance(w.Ctx(), w.Acct(a).Acc, ps[pi].Denom).Amount.BigInt(), erc20Bal(w, ps[pi].GetERC20Contract(), w.Acct(a).Eth))
		}
		return e.Step{K: "tx", Op: "bank_send", A: a, B: b, N: []int64{int64(pi)}, S: []string{amt(max)}}
	case 5:
		max := new(big.Int)
		if len(ps) > 0 {
			max = erc20Bal(w, ps[pi].GetERC20Contract(), w.Acct(a).Eth)
		}
		return e.Step{K: "tx", Op: "erc20_burn", A: a, N: []int64{int64(pi)}, S: []string{amt(max)}}
	case 6:
		return e.Step{K: "gov", N: []int64{int64(pi)}}
	case 7:
		ops := []string{"vest_create", "send", "lv_liquidate", "lv_redeem"}
		return Ops[ops[r.Intn(len(ops))]].Gen(w, r)
	default:
		if w.Height < 3 {
			return e.BlkStep(1000, nil)
		}
		return e.Step{K: "crash", A: 0}
	}
}

type c10Snap struct {
	bank   map[string]*big.Int // denom -> supply
	escrow map[string]*big.Int // denom -> bank balance of the erc20 module
	ts     map[string]*big.Int // denom -> ERC20 total supply
	modTok map[string]*big.Int // denom -> token.balanceOf(module)
}

func c10Snapshot(w *e.World) c10Snap {
	s := c10Snap{bank: map[string]*big.Int{}, escrow: map[string]*big.Int{}, ts: map[string]*big.Int{}, modTok: map[string]*big.Int{}}
	ctx := w.Ctx()
	mod := sdk.AccAddress(erc20types.ModuleAddress.Bytes())
	for _, p := range pairs(w) {
		s.bank[p.Denom] = w.App().BankKeeper.GetSupply(ctx, p.Denom).Amount.BigInt()
		s.escrow[p.Denom] = w.App().BankKeeper.GetBalance(ctx, mod, p.Denom).Amount.BigInt()
		s.ts[p.Denom] = erc20Supply(w, p.GetERC20Contract())
		s.modTok[p.Denom] = erc20Bal(w, p.GetERC20Contract(), erc20types.ModuleAddress)
	}
	return s
}

// c10Backing is the history invariant, evaluated after every tx and block.
func c10Backing(w *e.World, what string) *e.Violation {
	m := c10m(w)
	s := c10Snapshot(w)
	w.Stats.Oracle++
	w.Stats.Probe("backing_checked")
	for _, p := range pairs(w) {
		d := p.Denom
		if p.ContractOwner == erc20types.OWNER_MODULE {
			ts := s.ts[d]
			if ts == nil {
				continue // contract unreachable (self-destructed): nothing circulates
			}
			if ts.Cmp(s.escrow[d]) > 0 {
				return e.Violatef("erc20-peg", "erc20-supply-exceeds-escrowed-coins:after="+what, "pair %s: ERC20 total supply %s > %s coins escrowed by the module", d, ts, s.escrow[d])
			}
			burned := get(m.burned, d)
			if new(big.Int).Add(ts, burned).Cmp(s.escrow[d]) != 0 {
				return e.Violatef("erc20-peg", "erc20-supply-plus-burns-differs-from-escrow:after="+what, "pair %s: ERC20 total supply %s + holder burns %s != escrow %s", d, ts, burned, s.escrow[d])
			}
			if ts.Sign() > 0 {
				w.Stats.Probe("coin_origin_pair_in_circulation")
			}
		} else {
			tok := tokenOf(m, p.GetERC20Contract())
			if s.bank[d].Cmp(s.modTok[d]) > 0 {
				kind := "honest"
				if tok != nil {
					kind = tok.kind
				}
				return e.Violatef("erc20-peg", "coin-supply-exceeds-escrowed-tokens:"+kind+":after="+what, "pair %s (%s token): coin supply %s > %s tokens held by the module", d, kind, s.bank[d], s.modTok[d])
			}
			if s.bank[d].Sign() > 0 {
				w.Stats.Probe("erc20_origin_pair_in_circulation")
			}
		}
	}
	return nil
}

func tokenOf(m *c10Model, a common.Address) *c10Token {
	for i := range m.tokens {
		if m.tokens[i].addr == a {
			return &m.tokens[i]
		}
	}
	return nil
}

func (p c10) Exec(w *e.World, st *e.Step) *e.Violation {
	m := c10m(w)
	switch st.K {
	case "blk":
		w.MustBlk(st)
		return c10Backing(w, "block")
	case "crash":
		if v, ok := ExecCommon(w, st); ok && v != nil {
			return v
		}
		return nil
	case "gov":
		ps := pairs(w)
		if len(ps) == 0 {
			return nil
		}
		pr := ps[int(st.NArg(0))%len(ps)]
		c, err := legacyContent(erc20types.NewToggleTokenConversionProposal("t", "d", pr.Denom), e.ModuleAddr(govtypes.ModuleName).String())
		if err == nil {
			govPass(w, []sdk.Msg{c})
			w.Stats.Fault("conversion_toggled_by_governance")
		}
		return c10Backing(w, "gov")
	}
	if st.K != "tx" {
		return nil
	}
	ps := pairs(w)
	if _, isLib := Ops[st.Op]; isLib {
		ExecOp(w, st)
		return c10Backing(w, st.Op)
	}
	if st.Op == "erc20_batch" && len(ps) > 0 && st.A < len(w.Accts) {
		var calls []c10Call
		if json.Unmarshal(st.P, &calls) != nil {
			return nil
		}
		var nodes []*evmprog.Node
		for _, c := range calls {
			tok := m.zed
			if c.Tok >= 0 {
				tok = ps[c.Tok%len(ps)].GetERC20Contract()
			}
			to := erc20types.ModuleAddress
			if c.To >= 0 {
				to = w.Acct(c.To).Eth
			}
			data, err := contracts.ERC20MinterBurnerDecimalsContract.ABI.Pack("transfer", to, e.BigS(c.Amt))
			if err != nil {
				return nil
			}
			nodes = append(nodes, &evmprog.Node{Kind: evmprog.OpCall, Target: tok.Hex(), Catch: true, Data: common.Bytes2Hex(data)})
		}
		code, err := evmprog.Encode(nodes, hexResolver{})
		if err != nil {
			return nil
		}
		b := m.batcher
		res, err := w.DoEth(w.Acct(st.A), e.EthArgs{Type: 2, To: &b, Data: code, Gas: 3_000_000})
		if err != nil {
			return nil
		}
		w.Stats.Op(st.Op, res.Code == 0)
		w.Stats.Probe("multi_log_token_tx")
		return c10Backing(w, st.Op)
	}
	if len(ps) == 0 || st.A >= len(w.Accts) {
		return nil
	}
	pr := ps[int(st.NArg(0))%len(ps)]
	contract := pr.GetERC20Contract()
	a, b := w.Acct(st.A), w.Acct(st.B)
	amt := e.BigS(st.SArg(0))
	bankOf := func(x *e.Account) *big.Int {
		return w.App().BankKeeper.GetBalance(w.Ctx(), x.Acc, pr.Denom).Amount.BigInt()
	}
	preBankA, preBankB := bankOf(a), bankOf(b)
	preTokA, preTokB := erc20Bal(w, contract, a.Eth), erc20Bal(w, contract, b.Eth)
	pre := c10Snapshot(w)
	var res e.TxResult
	var err error
	okEVM := true
	switch st.Op {
	case "convert_coin":
		res, err = w.DoCosmos(a, e.TxOpts{}, erc20types.NewMsgConvertCoin(e.C(pr.Denom, amt), b.Eth, a.Acc))
	case "convert_erc20":
		res, err = w.DoCosmos(a, e.TxOpts{}, erc20types.NewMsgConvertERC20(sdkmath.NewIntFromBigInt(amt), b.Acc, contract, a.Eth))
	case "bank_send":
		res, err = w.DoCosmos(a, e.TxOpts{}, banktypes.NewMsgSend(a.Acc, b.Acc, sdk.NewCoins(e.C(pr.Denom, amt))))
	case "erc20_transfer", "erc20_burn", "erc20_approve":
		to := b.Eth
		if st.NArg(1) == 1 {
			to = erc20types.ModuleAddress
		}
		var data []byte
		if st.Op == "erc20_burn" {
			data, err = contracts.ERC20MinterBurnerDecimalsContract.ABI.Pack("burn", amt)
		} else if st.Op == "erc20_approve" {
			data, err = contracts.ERC20MinterBurnerDecimalsContract.ABI.Pack("approve", to, amt)
		} else {
			data, err = contracts.ERC20MinterBurnerDecimalsContract.ABI.Pack("transfer", to, amt)
		}
		if err != nil {
			return nil
		}
		res, err = w.DoEth(a, e.EthArgs{Type: 2, To: &contract, Data: data, Gas: 400_000})
		if err == nil && res.Code == 0 {
			if r, e2 := w.EthResponse(res); e2 != nil || r.Failed() {
				okEVM = false
			}
		}
	default:
		return nil
	}
	if err != nil {
		return nil
	}
	ok := res.Code == 0 && okEVM
	w.Stats.Op(st.Op, ok)
	post := c10Snapshot(w)
	d := pr.Denom
	tok := tokenOf(m, contract)
	kind := "module-owned"
	if tok != nil {
		kind = tok.kind
	}
	dBankA, dTokB := sub(preBankA, bankOf(a)), sub(erc20Bal(w, contract, b.Eth), preTokB)
	dTokA, dBankB := sub(preTokA, erc20Bal(w, contract, a.Eth)), sub(bankOf(b), preBankB)
	desc := fmt.Sprintf("%s of %s %s (%s token) by acct %d to acct %d: code %d", st.Op, amt, d, kind, st.A, st.B, res.Code)
	switch st.Op {
	case "convert_coin":
		if ok {
			w.Stats.Probe("coin_to_erc20_converted")
			same := st.A == st.B
			if dBankA.Cmp(amt) != 0 || (dTokB.Cmp(amt) != 0 && !(same && false)) {
				return e.Violatef("erc20-peg", "conversion-delta-wrong:convert_coin:"+kind, "%s: sender's coins -%s, receiver's tokens +%s", desc, dBankA, dTokB)
			}
		} else if dBankA.Sign() != 0 && !feeDenom(d) || dTokB.Sign() != 0 {
			return e.Violatef("erc20-peg", "failed-conversion-had-effect:convert_coin:"+kind, "%s: coins %s, tokens %s", desc, dBankA, dTokB)
		}
	case "convert_erc20":
		if ok {
			w.Stats.Probe("erc20_to_coin_converted")
			if dTokA.Cmp(amt) != 0 || dBankB.Cmp(amt) != 0 {
				return e.Violatef("erc20-peg", "conversion-delta-wrong:convert_erc20:"+kind, "%s: sender's tokens -%s, receiver's coins +%s", desc, dTokA, dBankB)
			}
		} else if dTokA.Sign() != 0 || dBankB.Sign() != 0 {
			return e.Violatef("erc20-peg", "failed-conversion-had-effect:convert_erc20:"+kind, "%s: tokens %s, coins %s", desc, dTokA, dBankB)
		}
	case "erc20_transfer":
		if ok && st.NArg(1) == 1 && pr.Enabled {
			// hook path: tokens sent to the module address become coins of the sender
			got := sub(bankOf(a), preBankA)
			if kind == "honest" || kind == "module-owned" {
				w.Stats.Probe("hook_conversion")
				if got.Cmp(amt) != 0 && amt.Sign() > 0 {
					return e.Violatef("erc20-peg", "conversion-delta-wrong:hook:"+kind, "%s: transfer of %s tokens to the module address credited %s coins", desc, amt, got)
				}
			}
		}
	case "bank_send":
		if ok && pr.Enabled && amt.Sign() > 0 {
			w.Stats.Probe("bank_send_wrapper_used")
			// wrapper path: the recipient receives the amount as tokens (sender's coins are converted first)
			total := new(big.Int).Add(dTokB, dBankB)
			if st.A != st.B && total.Cmp(amt) != 0 {
				return e.Violatef("erc20-peg", "conversion-delta-wrong:bank_send:"+kind, "%s: recipient received %s tokens + %s coins", desc, dTokB, dBankB)
			}
		}
	case "erc20_approve":
		w.Stats.Probe("allowance_given")
		if dBankA.Sign() != 0 && !feeDenom(d) || dTokA.Sign() != 0 || (st.A != st.B && (dBankB.Sign() != 0 || dTokB.Sign() != 0)) {
			return e.Violatef("erc20-peg", "approval-moved-funds:"+kind, "%s: an ERC20 approve changed balances: owner coins -%s tokens -%s, spender coins +%s tokens +%s", desc, dBankA, dTokA, dBankB, dTokB)
		}
	case "erc20_burn":
		if ok && pr.ContractOwner == erc20types.OWNER_MODULE {
			m.burned[d] = new(big.Int).Add(get(m.burned, d), amt)
			w.Stats.Fault("holder_burned_tokens")
		}
	}
	_ = pre
	_ = post
	return c10Backing(w, st.Op)
}

func feeDenom(d string) bool { return d == e.Denom }

func (c10) Final(w *e.World) *e.Violation {
	Tail(w, 2)
	return c10Backing(w, "tail")
}
