package props

import (
	"fmt"
	"math/big"
	"strings"

	sdkmath "cosmossdk.io/math"
	sdk "github.com/cosmos/cosmos-sdk/types"
	authtypes "github.com/cosmos/cosmos-sdk/x/auth/types"
	transfertypes "github.com/cosmos/ibc-go/v7/modules/apps/transfer/types"
	channeltypes "github.com/cosmos/ibc-go/v7/modules/core/04-channel/types"
	ibcgotesting "github.com/cosmos/ibc-go/v7/testing"
	"github.com/ethereum/go-ethereum/common"

	"github.com/haqq-network/haqq/contracts"
	erc20types "github.com/haqq-network/haqq/x/erc20/types"

	e "haqqsim/engine"
)

// C10 over IBC — the conversions that happen "automatically on IBC
// receive / ack / timeout". Two Haqq chains, one transfer channel, four asset
// families (a bank coin and a token contract native to each chain). Clients
// transfer in both directions and convert by message; governance registers
// voucher pairs and toggles conversion while packets are in flight; the
// relayer (the simulator) delays, reorders, duplicates and drops packets and
// acknowledgements and lets packets time out.
//
// Oracles after every step: the backing inequality of every pair on both
// chains; conservation per family (holdings on both chains in either
// representation + what is in flight = what was issued); per-operation deltas
// (a duplicate delivery changes nothing, a refund returns exactly the amount).
// End of run, after the relayer has resolved every packet: nothing in flight
// and the escrow on the home chain equals what circulates on the other chain.

type c10mux struct{ coin c10 }

func init() { register("C10", func() e.Profile { return &c10mux{} }) }

func (c10mux) ID() string { return "C10" }

func isIBC(cfg e.Config) bool { return cfg.Flags["ibc"] == 1 }

func (m c10mux) Configure(r *e.RNG, tier string) e.Config {
	if r.Chance(0.35) {
		c := e.DefaultConfig()
		c.NVals, c.NAccts = 1, 2
		c.Flags["ibc"] = 1
		c.Flags["users"] = r.Range(2, 3)
		c.Flags["w_xfer"] = r.Range(4, 8)
		c.Flags["w_relay"] = r.Range(2, 8)
		c.Flags["w_ack"] = r.Range(1, 6)
		c.Flags["w_timeout"] = r.Range(1, 4)
		c.Flags["w_dup"] = r.Range(0, 3)
		c.Flags["w_convert"] = r.Range(1, 4)
		c.Flags["w_toggle"] = r.Range(0, 2)
		c.Flags["w_register"] = r.Range(1, 3)
		c.Flags["w_blk"] = r.Range(1, 4)
		c.Flags["w_pause"] = r.Range(0, 2)
		c.Flags["max_timeout"] = []int64{3, 10, 40}[r.Intn(3)]
		return c
	}
	return m.coin.Configure(r, tier)
}

func (m c10mux) Length(cfg e.Config, tier string) int {
	if isIBC(cfg) {
		if tier == "thorough" {
			return 120
		}
		return 40
	}
	return m.coin.Length(cfg, tier)
}

func (m c10mux) Tier(tier string) (uint64, int64) {
	if tier == "thorough" {
		return 3000, 2400
	}
	return 192, 300
}

func (m c10mux) MandatoryProbes() []string {
	return append(m.coin.MandatoryProbes(), "ibc_conservation_checked", "ibc_packet_received_and_converted", "ibc_refund_after_timeout", "ibc_refund_after_error_ack", "ibc_quiescence_reached", "ibc_voucher_sent_home:erc20", "multi_log_token_tx")
}

// Components: what ran real code and what was a stub (evidence file).
func (c10mux) Components() map[string]any {
	return map[string]any{
		"real": []string{"app.Haqq (BaseApp, all keepers, ante chains, EVM, erc20 hooks and IBC middleware, transfer wrapper)", "rootmulti+IAVL store over SimDB (single-chain runs) / MemDB (two-chain runs)", "tx encoding and signing", "two-chain runs: two app.Haqq instances, ibc-go core + 07-tendermint light clients verifying signed headers and ICS-23 proofs, ICS-20 transfer module", "compiled token artefacts of the repository (honest, delayed-malicious, direct-balance-manipulation)"},
		"stub": []string{"CometBFT consensus/p2p/mempool (scheduler builds blocks and calls ABCI; two-chain runs: ibc-go's testing chain signs headers with one validator key)", "clients and governance (seeded actors; pair registration/toggles in two-chain runs call the keeper at a block boundary)", "the relayer (the simulator decides what is delivered, when, how often)"},
	}
}

func (m c10mux) Setup(w *e.World) error {
	if !isIBC(w.Cfg) {
		return m.coin.Setup(w)
	}
	iw, err := newIBCWorld(e.KeySeed, int(w.Cfg.Flags["users"]))
	if err != nil {
		return err
	}
	iw.stats, iw.w = w.Stats, w
	w.Ext["ibc"] = iw
	return nil
}

func ibcw(w *e.World) *ibcWorld { return w.Ext["ibc"].(*ibcWorld) }

func (m c10mux) Gen(w *e.World, r *e.RNG) e.Step {
	if !isIBC(w.Cfg) {
		return m.coin.Gen(w, r)
	}
	iw := ibcw(w)
	f := w.Cfg.Flags
	var unrecv, unacked, all []int
	for _, p := range iw.pkts {
		all = append(all, p.ID)
		if !p.Done && !p.Received {
			unrecv = append(unrecv, p.ID)
		}
		if !p.Done && p.Received {
			unacked = append(unacked, p.ID)
		}
	}
	pick := func(xs []int) int64 {
		if len(xs) == 0 {
			return int64(r.Intn(4))
		}
		return int64(xs[r.Intn(len(xs))])
	}
	c := int64(r.Intn(2))
	fam := int64(r.Intn(len(iw.fams)))
	u, v := r.Intn(iw.nUsers), r.Intn(iw.nUsers)
	switch r.Weighted([]int{int(f["w_xfer"]), int(f["w_relay"]), int(f["w_ack"]), int(f["w_timeout"]), int(f["w_dup"]), int(f["w_convert"]), int(f["w_toggle"]), int(f["w_register"]), int(f["w_blk"]), int(f["w_pause"])}) {
	case 9:
		// the owner of a token contract pauses / unpauses it: every token movement reverts meanwhile
		var toks []int64
		for fi, fm := range iw.fams {
			if fm.Kind == "erc20" {
				toks = append(toks, int64(fi))
			}
		}
		return e.Step{K: "ibc", Op: "pause", N: []int64{toks[r.Intn(len(toks))]}}
	case 0:
		// mostly from where the asset is held
		if r.Chance(0.6) {
			c = int64(iw.fams[fam].Home)
		}
		if r.Chance(0.35) {
			// send vouchers back home: somebody on the other chain who holds some
			type holder struct{ fam, c, u int }
			var hs []holder
			for fi, fm := range iw.fams {
				rc := 1 - fm.Home
				for ui, usr := range iw.users[rc] {
					if co, tk := iw.holding(fm, rc, usr.Acc); co.Sign() > 0 || tk.Sign() > 0 {
						hs = append(hs, holder{fi, rc, ui})
					}
				}
			}
			if len(hs) > 0 {
				h := hs[r.Intn(len(hs))]
				fam, c, u = int64(h.fam), int64(h.c), h.u
			}
		}
		co, tk := iw.holding(iw.fams[fam], int(c), iw.users[c][u].Acc)
		max := new(big.Int).Add(co, tk)
		amt := big.NewInt(r.Range(1, 5000))
		if max.Sign() > 0 && (r.Chance(0.3) || amt.Cmp(max) > 0) {
			amt = r.Amount(max) // up to everything
		}
		if r.Chance(0.05) {
			amt = new(big.Int).Add(max, big.NewInt(1)) // more than held
		}
		// receivers that make the other chain refuse the packet (error acknowledgement)
		if r.Chance(0.12) {
			v = -1 - r.Intn(2) // -1: not an address, -2: a module account that may not receive
		}
		via := int64(0)
		if r.Chance(0.3) {
			via = 1 // through the ICS-20 precompile, as an Ethereum transaction
		}
		return e.Step{K: "ibc", Op: "xfer", A: u, B: v, N: []int64{c, fam, r.Range(1, f["max_timeout"]), via}, S: []string{amt.String()}}
	case 1:
		return e.Step{K: "ibc", Op: "relay", N: []int64{pick(unrecv)}}
	case 2:
		return e.Step{K: "ibc", Op: "ack", N: []int64{pick(unacked)}}
	case 3:
		return e.Step{K: "ibc", Op: "timeout", N: []int64{pick(unrecv)}}
	case 4:
		return e.Step{K: "ibc", Op: []string{"relay", "ack", "timeout"}[r.Intn(3)], N: []int64{pick(all)}} // anything, again
	case 5:
		co, tk := iw.holding(iw.fams[fam], int(c), iw.users[c][u].Acc)
		dir := int64(r.Intn(2))
		max := co
		if dir == 1 {
			max = tk
		}
		amt := big.NewInt(r.Range(1, 5000))
		if max.Sign() > 0 && r.Chance(0.5) {
			amt = r.Amount(max)
		}
		return e.Step{K: "ibc", Op: "convert", A: u, N: []int64{c, fam, dir}, S: []string{amt.String()}}
	case 6:
		return e.Step{K: "ibc", Op: "toggle", N: []int64{c, fam}}
	case 7:
		// prefer a voucher that exists and has no pair yet
		for _, fi := range r.Perm(len(iw.fams)) {
			rc := 1 - iw.fams[fi].Home
			if _, ok := iw.pairOn(iw.fams[fi], rc); !ok && iw.ch[rc].app.BankKeeper.GetSupply(iw.ctx(rc), iw.denomOn(iw.fams[fi], rc)).Amount.IsPositive() {
				return e.Step{K: "ibc", Op: "register", N: []int64{int64(rc), int64(fi)}}
			}
		}
		return e.Step{K: "ibc", Op: "register", N: []int64{c, fam}}
	default:
		return e.Step{K: "ibc", Op: "blk", N: []int64{c, r.Range(1, 4)}}
	}
}

type ibcSnap struct {
	hold [][2][]*big.Int // family -> chain -> user -> coin+token
}

func (iw *ibcWorld) snap() ibcSnap {
	s := ibcSnap{}
	for _, f := range iw.fams {
		var per [2][]*big.Int
		for c := 0; c < 2; c++ {
			for _, u := range iw.users[c] {
				co, tk := iw.holding(f, c, u.Acc)
				per[c] = append(per[c], new(big.Int).Add(co, tk))
			}
		}
		s.hold = append(s.hold, per)
	}
	return s
}

func (s ibcSnap) sum(f int) *big.Int {
	t := new(big.Int)
	for c := 0; c < 2; c++ {
		for _, x := range s.hold[f][c] {
			t.Add(t, x)
		}
	}
	return t
}

// inFlight: amounts that left their sender and have neither reached a receiver nor been refunded.
func (iw *ibcWorld) inFlight(f int) *big.Int {
	t := new(big.Int)
	for _, p := range iw.pkts {
		if p.Fam != f || p.Done {
			continue
		}
		if !p.Received || !p.AckOK {
			t.Add(t, p.Amt)
		}
	}
	return t
}

// ibcInvariants: backing of every pair on both chains, conservation per family.
func ibcInvariants(w *e.World, iw *ibcWorld, s ibcSnap, after string) *e.Violation {
	w.Stats.Oracle++
	for c := 0; c < 2; c++ {
		a := iw.ch[c].app
		ctx := iw.ctx(c)
		mod := authtypes.NewModuleAddress(erc20types.ModuleName)
		for _, pair := range a.Erc20Keeper.GetTokenPairs(ctx) {
			tokAddr := pair.GetERC20Contract()
			res, err := a.Erc20Keeper.CallEVM(ctx, contracts.ERC20MinterBurnerDecimalsContract.ABI, erc20types.ModuleAddress, tokAddr, false, "totalSupply")
			if err != nil {
				continue
			}
			out, err := contracts.ERC20MinterBurnerDecimalsContract.ABI.Unpack("totalSupply", res.Ret)
			if err != nil || len(out) == 0 {
				continue
			}
			totalSupply := out[0].(*big.Int)
			escrow := a.BankKeeper.GetBalance(ctx, mod, pair.Denom).Amount.BigInt()
			w.Stats.Probe("backing_checked")
			if pair.IsNativeCoin() {
				if totalSupply.Cmp(escrow) != 0 {
					return e.Violatef("erc20-peg", "ibc:coin-origin-pair-not-backed", "after %s: chain %d pair %s: ERC20 total supply %s, coins escrowed in the module %s", after, c, pair.Denom, totalSupply, escrow)
				}
			} else {
				supply := a.BankKeeper.GetSupply(ctx, pair.Denom).Amount.BigInt()
				held := iw.erc20Bal(c, tokAddr, common.BytesToAddress(mod.Bytes()))
				if supply.Cmp(held) != 0 {
					return e.Violatef("erc20-peg", "ibc:erc20-origin-pair-not-backed", "after %s: chain %d pair %s: coin supply %s, tokens escrowed by the module %s", after, c, pair.Denom, supply, held)
				}
			}
		}
	}
	for fi, f := range iw.fams {
		got := new(big.Int).Add(s.sum(fi), iw.inFlight(fi))
		w.Stats.Probe("ibc_conservation_checked")
		if got.Cmp(iw.total[fi]) != 0 {
			return e.Violatef("erc20-peg", "ibc:family-not-conserved:"+f.Kind, "after %s: family %s: users hold %s on both chains, %s in flight, but %s were issued", after, f.Name, s.sum(fi), iw.inFlight(fi), iw.total[fi])
		}
	}
	return nil
}

func ackIsSuccess(ack []byte) bool {
	var a channeltypes.Acknowledgement
	if err := transfertypes.ModuleCdc.UnmarshalJSON(ack, &a); err != nil {
		return false
	}
	return a.Success()
}

func (m c10mux) Exec(w *e.World, st *e.Step) *e.Violation {
	if !isIBC(w.Cfg) {
		return m.coin.Exec(w, st)
	}
	if st.K != "ibc" {
		return nil
	}
	iw := ibcw(w)
	pre := iw.snap()
	desc := fmt.Sprintf("%s %v %v", st.Op, st.N, st.S)
	harness := func(err error) {
		if err != nil && strings.HasPrefix(err.Error(), "harness:") {
			panic(err)
		}
	}
	pkt := func() *ibcPacket {
		id := int(st.NArg(0))
		if id < 0 || id >= len(iw.pkts) {
			return nil
		}
		return iw.pkts[id]
	}
	diff := func(post ibcSnap, f, c, u int) *big.Int {
		return new(big.Int).Sub(post.hold[f][c][u], pre.hold[f][c][u])
	}
	unchanged := func(post ibcSnap, what string) *e.Violation {
		for fi := range iw.fams {
			for c := 0; c < 2; c++ {
				for u := range iw.users[c] {
					if d := diff(post, fi, c, u); d.Sign() != 0 {
						return e.Violatef("erc20-peg", "ibc:"+what+"-changed-balances", "%s: holdings of user %d on chain %d in family %s changed by %s", desc, u, c, iw.fams[fi].Name, d)
					}
				}
			}
		}
		return nil
	}
	switch st.Op {
	case "xfer":
		c, fi := int(st.NArg(0))%2, int(st.NArg(1))%len(iw.fams)
		u, v := st.A%iw.nUsers, st.B
		if v >= 0 {
			v = v % iw.nUsers
		}
		amt := e.BigS(st.SArg(0))
		if amt.Sign() <= 0 {
			return nil
		}
		var p *ibcPacket
		var err error
		if st.NArg(3) == 1 {
			p, err = iw.sendViaPrecompile(c, fi, u, v, amt, uint64(st.NArg(2)))
			harness(err)
			w.Stats.Op("ibc_xfer_via_precompile", err == nil)
			if err == nil {
				w.Stats.Probe("ibc_transfer_through_ics20_precompile")
			}
		} else {
			p, err = iw.send(c, fi, u, v, amt, uint64(st.NArg(2)))
		}
		w.Stats.Op("ibc_xfer", err == nil)
		post := iw.snap()
		if err != nil {
			if p == nil && strings.Contains(err.Error(), "without a send_packet") {
				return e.Violatef("erc20-peg", "ibc:transfer-without-packet", "%s: %v", desc, err)
			}
			if v := unchanged(post, "failed-transfer"); v != nil {
				return v
			}
		} else {
			if d := diff(post, fi, c, u); new(big.Int).Neg(d).Cmp(amt) != 0 {
				return e.Violatef("erc20-peg", "ibc:transfer-debited-wrong-amount", "%s: sender's holdings changed by %s", desc, d)
			}
			if iw.fams[fi].Kind == "erc20" && c == iw.fams[fi].Home {
				w.Stats.Probe("ibc_erc20_converted_on_send")
			}
			if c != iw.fams[fi].Home {
				w.Stats.Probe("ibc_voucher_sent_home:" + iw.fams[fi].Kind)
			}
		}
		return ibcInvariants(w, iw, post, desc)
	case "relay":
		p := pkt()
		if p == nil {
			return nil
		}
		d := iw.other(p.Src)
		if fm := iw.fams[p.Fam]; fm.Kind == "erc20" && d == fm.Home && !p.Received && !p.Done && iw.paused(fm) {
			w.Stats.Probe("ibc_return_home_while_token_paused")
		}
		res, err := iw.recv(p)
		harness(err)
		w.Stats.Op("ibc_relay", err == nil)
		post := iw.snap()
		firstDelivery := false
		if err == nil && !p.Received {
			if ack, aerr := ibcgotesting.ParseAckFromEvents(res.GetEvents()); aerr == nil {
				p.Received, p.Ack, p.AckOK = true, ack, ackIsSuccess(ack)
				firstDelivery = true
			} else if p.Done {
				// a packet whose timeout/ack was processed cannot be received any more; no ack is written
			} else {
				// redundant relay (no-op message) of something the model thought pending
			}
		}
		if firstDelivery && p.Done {
			return e.Violatef("erc20-peg", "ibc:packet-received-after-refund", "%s: packet %d was received on chain %d although its sender has already been refunded", desc, p.ID, d)
		}
		if firstDelivery && p.AckOK && p.To < 0 {
			return e.Violatef("erc20-peg", "ibc:packet-to-unusable-receiver-accepted", "%s: packet %d names a receiver that cannot hold funds (%d) and was acknowledged as successful", desc, p.ID, p.To)
		}
		if firstDelivery && p.AckOK {
			w.Stats.Fault("ibc_delivery")
			if dd := diff(post, p.Fam, d, p.To); dd.Cmp(p.Amt) != 0 {
				return e.Violatef("erc20-peg", "ibc:receiver-credited-wrong-amount", "%s: packet %d carries %s, receiver's holdings changed by %s", desc, p.ID, p.Amt, dd)
			}
			if _, ok := iw.pairOn(iw.fams[p.Fam], d); ok {
				_, tk := iw.holding(iw.fams[p.Fam], d, iw.users[d][p.To].Acc)
				if tk.Sign() > 0 {
					w.Stats.Probe("ibc_packet_received_and_converted")
				}
			}
		} else {
			if firstDelivery {
				w.Stats.Probe("ibc_error_ack_written")
			} else {
				w.Stats.Fault("ibc_duplicate_or_late_delivery")
			}
			if v := unchanged(post, "non-delivering-relay"); v != nil {
				return v
			}
		}
		return ibcInvariants(w, iw, post, desc)
	case "ack":
		p := pkt()
		if p == nil || !p.Received {
			return nil
		}
		_, err := iw.ack(p)
		harness(err)
		w.Stats.Op("ibc_ack", err == nil)
		post := iw.snap()
		first := err == nil && !p.Done
		if first {
			p.Done = true
		}
		if first && !p.AckOK {
			w.Stats.Probe("ibc_refund_after_error_ack")
			if dd := diff(post, p.Fam, p.Src, p.From); dd.Cmp(p.Amt) != 0 {
				return e.Violatef("erc20-peg", "ibc:refund-wrong-amount:error-ack", "%s: packet %d of %s failed on the other chain, sender's holdings changed by %s", desc, p.ID, p.Amt, dd)
			}
		} else {
			if !first {
				w.Stats.Fault("ibc_duplicate_ack")
			}
			if v := unchanged(post, "non-refunding-ack"); v != nil {
				return v
			}
		}
		return ibcInvariants(w, iw, post, desc)
	case "timeout":
		p := pkt()
		if p == nil {
			return nil
		}
		_, err := iw.timeout(p)
		harness(err)
		w.Stats.Op("ibc_timeout", err == nil)
		post := iw.snap()
		if err == nil && !p.Done {
			if p.Received {
				return e.Violatef("erc20-peg", "ibc:timeout-accepted-for-received-packet", "%s: packet %d was received on the other chain and still timed out on the sending chain", desc, p.ID)
			}
			p.Done = true
			w.Stats.Probe("ibc_refund_after_timeout")
			w.Stats.Fault("ibc_packet_dropped_until_timeout")
			if dd := diff(post, p.Fam, p.Src, p.From); dd.Cmp(p.Amt) != 0 {
				return e.Violatef("erc20-peg", "ibc:refund-wrong-amount:timeout", "%s: packet %d of %s timed out, sender's holdings changed by %s", desc, p.ID, p.Amt, dd)
			}
		} else if v := unchanged(post, "non-refunding-timeout"); v != nil {
			return v
		}
		return ibcInvariants(w, iw, post, desc)
	case "convert":
		c, fi := int(st.NArg(0))%2, int(st.NArg(1))%len(iw.fams)
		u := st.A % iw.nUsers
		pair, ok := iw.pairOn(iw.fams[fi], c)
		amt := e.BigS(st.SArg(0))
		if !ok || amt.Sign() <= 0 {
			return nil
		}
		acct := iw.users[c][u]
		var msg sdk.Msg
		if st.NArg(2) == 0 {
			msg = erc20types.NewMsgConvertCoin(sdk.NewCoin(pair.Denom, sdkmath.NewIntFromBigInt(amt)), acct.Eth, acct.Acc)
		} else {
			msg = erc20types.NewMsgConvertERC20(sdkmath.NewIntFromBigInt(amt), acct.Acc, pair.GetERC20Contract(), acct.Eth)
		}
		_, err := iw.deliver(c, acct, msg)
		w.Stats.Op("ibc_convert", err == nil)
		post := iw.snap()
		if v := unchanged(post, "conversion"); v != nil { // coin + token of the same user: the sum must not move
			return v
		}
		return ibcInvariants(w, iw, post, desc)
	case "toggle":
		c, fi := int(st.NArg(0))%2, int(st.NArg(1))%len(iw.fams)
		if pair, ok := iw.pairOn(iw.fams[fi], c); ok {
			if _, err := iw.ch[c].app.Erc20Keeper.ToggleConversion(iw.ctx(c), pair.Erc20Address); err == nil {
				w.Stats.Op("ibc_toggle", true)
			}
			iw.commit(c)
		}
		return ibcInvariants(w, iw, iw.snap(), desc)
	case "register":
		c, fi := int(st.NArg(0))%2, int(st.NArg(1))%len(iw.fams)
		f := iw.fams[fi]
		if _, ok := iw.pairOn(f, c); ok || c == f.Home {
			return nil
		}
		denom := iw.denomOn(f, c)
		if iw.ch[c].app.BankKeeper.GetSupply(iw.ctx(c), denom).Amount.IsZero() {
			return nil
		}
		_, err := iw.ch[c].app.Erc20Keeper.RegisterCoin(iw.ctx(c), coinMeta(denom, "V"+strings.ToUpper(f.Name)))
		w.Stats.Op("ibc_register_voucher", err == nil)
		iw.commit(c)
		return ibcInvariants(w, iw, iw.snap(), desc)
	case "pause":
		fm := iw.fams[int(st.NArg(0))%len(iw.fams)]
		if fm.Kind != "erc20" {
			return nil
		}
		iw.setPaused(fm, !iw.paused(fm))
		w.Stats.Fault("token_contract_paused_or_unpaused")
		return ibcInvariants(w, iw, iw.snap(), desc)
	case "blk":
		c := int(st.NArg(0)) % 2
		for i := int64(0); i < st.NArg(1) && i < 8; i++ {
			iw.commit(c)
		}
		return nil
	}
	return nil
}

func (m c10mux) Final(w *e.World) *e.Violation {
	if !isIBC(w.Cfg) {
		return m.coin.Final(w)
	}
	iw := ibcw(w)
	// the faults stop: governance re-enables every pair (a refund into a disabled
	// pair is refused as a whole, i.e. "fails without effect" until then), and the
	// relayer resolves everything that is still open
	for c := 0; c < 2; c++ {
		k := iw.ch[c].app.Erc20Keeper
		for _, pair := range k.GetTokenPairs(iw.ctx(c)) {
			if !pair.Enabled {
				if _, err := k.ToggleConversion(iw.ctx(c), pair.Erc20Address); err != nil {
					panic(fmt.Errorf("re-enable pair: %w", err))
				}
				w.Stats.Probe("ibc_pair_reenabled_before_quiescence")
			}
		}
		iw.commit(c)
	}
	for _, fm := range iw.fams {
		if fm.Kind == "erc20" && iw.paused(fm) {
			iw.setPaused(fm, false)
		}
	}
	for _, p := range iw.pkts {
		if p.Done {
			continue
		}
		st := e.Step{K: "ibc", Op: "relay", N: []int64{int64(p.ID)}}
		if !p.Received {
			if v := m.Exec(w, &st); v != nil {
				return v
			}
		}
		if p.Received {
			st.Op = "ack"
			if v := m.Exec(w, &st); v != nil {
				return v
			}
		} else {
			// not receivable any more: it must be possible to time it out
			d := iw.other(p.Src)
			for i := 0; i < 14; i++ {
				iw.commit(d)
			}
			st.Op = "timeout"
			if v := m.Exec(w, &st); v != nil {
				return v
			}
		}
		if !p.Done {
			return e.Violatef("erc20-peg", "ibc:packet-cannot-be-resolved", "packet %d (family %s, %s from chain %d) can neither be delivered and acknowledged nor timed out once the relayer catches up: the sender's funds stay locked", p.ID, iw.fams[p.Fam].Name, p.Amt, p.Src)
		}
	}
	w.Stats.Probe("ibc_quiescence_reached")
	s := iw.snap()
	if v := ibcInvariants(w, iw, s, "quiescence"); v != nil {
		return v
	}
	for fi, f := range iw.fams {
		if iw.inFlight(fi).Sign() != 0 {
			return e.Violatef("erc20-peg", "ibc:in-flight-at-quiescence", "family %s: %s still in flight", f.Name, iw.inFlight(fi))
		}
		// what circulates on the other chain is escrowed on the home chain
		h := f.Home
		ep := iw.ch[h].ep
		esc := transfertypes.GetEscrowAddress(ep.ChannelConfig.PortID, ep.ChannelID)
		locked := iw.ch[h].app.BankKeeper.GetBalance(iw.ctx(h), esc, f.Base).Amount.BigInt()
		remote := iw.ch[1-h].app.BankKeeper.GetSupply(iw.ctx(1-h), iw.denomOn(f, 1-h)).Amount.BigInt()
		if locked.Cmp(remote) != 0 {
			return e.Violatef("erc20-peg", "ibc:escrow-differs-from-remote-supply", "family %s: %s escrowed on chain %d, %s vouchers exist on chain %d", f.Name, locked, h, remote, 1-h)
		}
	}
	return nil
}
