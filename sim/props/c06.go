package props

import (
	"encoding/json"
	"fmt"
	"math/big"
	"time"

	sdkmath "cosmossdk.io/math"
	codectypes "github.com/cosmos/cosmos-sdk/codec/types"
	sdk "github.com/cosmos/cosmos-sdk/types"
	sdkvesting "github.com/cosmos/cosmos-sdk/x/auth/vesting/types"
	"github.com/cosmos/cosmos-sdk/x/authz"
	banktypes "github.com/cosmos/cosmos-sdk/x/bank/types"
	"github.com/ethereum/go-ethereum/common"

	e "haqqsim/engine"

	haqqtypes "github.com/haqq-network/haqq/types"
	evmtypes "github.com/haqq-network/haqq/x/evm/types"
)

// C06 — Ethereum messages and blocked types cannot bypass their route.
//
// The ante-level statement is a function of one transaction; what the
// simulator adds is a byzantine client + proposer (correctly signed, fee paid,
// straight into DeliverTx) and an end-to-end observable that does not trust
// the ante handler's own verdict: nothing changes and no ethereum_tx event
// appears unless the transaction took the Ethereum route.
type c06 struct{}

func init() { register("C06", func() e.Profile { return &c06{} }) }

func (c06) ID() string { return "C06" }

type c06Node struct {
	K string    `json:"k"` // exec | grant | eth | vest | send
	C []c06Node `json:"c,omitempty"`
	U int       `json:"u,omitempty"` // grant: 0 eth, 1 vesting, 2 send (allowed), 3 send-authorization
}

type c06Tx struct {
	Route string    `json:"route"` // plain | dynfee | web3 | eth
	Msgs  []c06Node `json:"msgs"`
	Ext   []string  `json:"ext,omitempty"` // explicit extension-option list (overrides Route's default)
}

func (c06) Configure(r *e.RNG, tier string) e.Config {
	c := e.DefaultConfig()
	c.NVals = 1
	c.NAccts = 4
	c.NoBaseFee = r.Chance(0.5)
	c.Flags["max_depth"] = r.Range(1, 9)
	c.Flags["max_width"] = r.Range(1, 4)
	c.Flags["w_blk"] = 2
	c.Flags["w_tree"] = r.Range(6, 12)
	c.Flags["w_ext"] = r.Range(1, 4)
	c.Flags["w_ok"] = r.Range(1, 4)
	return c
}

func (c06) Length(cfg e.Config, tier string) int {
	if tier == "thorough" {
		return 250
	}
	return 80
}

func (c06) Tier(tier string) (uint64, int64) {
	if tier == "thorough" {
		return 4000, 2400
	}
	return 192, 300
}

func (c06) MandatoryProbes() []string {
	return []string{"forbidden_rejected", "allowed_nested_exec_succeeded", "eth_route_succeeded", "deep_forbidden_rejected"}
}

func (c06) Setup(w *e.World) error { return nil }

func genTree(r *e.RNG, depth, maxDepth, maxWidth int, leaf *c06Node, placeAt *int, counter *int) c06Node {
	// an exec node with 1..maxWidth children; the blocked leaf is placed at the
	// position counted by placeAt
	n := c06Node{K: "exec"}
	width := 1 + r.Intn(maxWidth)
	for i := 0; i < width; i++ {
		*counter++
		if depth < maxDepth && r.Chance(0.6) {
			n.C = append(n.C, genTree(r, depth+1, maxDepth, maxWidth, leaf, placeAt, counter))
		} else if leaf != nil && *counter >= *placeAt {
			n.C = append(n.C, *leaf)
			*placeAt = 1 << 30
		} else if r.Chance(0.25) {
			// a harmless grant (of MsgSend, generic or with a spend limit) as sibling
			n.C = append(n.C, c06Node{K: "grant", U: 2 + r.Intn(2)})
		} else {
			n.C = append(n.C, c06Node{K: "send"})
		}
	}
	return n
}

func (c06) Gen(w *e.World, r *e.RNG) e.Step {
	f := w.Cfg.Flags
	a := r.Intn(nAcc(w))
	switch r.Weighted([]int{int(f["w_blk"]), int(f["w_tree"]), int(f["w_ext"]), int(f["w_ok"])}) {
	case 0:
		return e.BlkStep(r.Range(500, 5000), nil)
	case 1:
		leaves := []c06Node{{K: "eth"}, {K: "vest"}, {K: "grant", U: 0}, {K: "grant", U: 1}, {K: "send"}, {K: "grant", U: 2}}
		leaf := leaves[r.Weighted([]int{5, 3, 2, 2, 1, 1})]
		routes := []string{"plain", "dynfee", "web3", "eth"}
		t := c06Tx{Route: routes[r.Weighted([]int{5, 2, 3, 2})]}
		nTop := 1 + r.Intn(2)
		for i := 0; i < nTop; i++ {
			switch r.Weighted([]int{6, 2, 1}) {
			case 0:
				place, cnt := 1+r.Intn(6), 0
				tr := genTree(r, 1, int(f["max_depth"]), int(f["max_width"]), &leaf, &place, &cnt)
				if place != 1<<30 {
					// leaf not placed yet: append to the deepest-first node
					tr.C = append(tr.C, leaf)
				}
				t.Msgs = append(t.Msgs, tr)
			case 1:
				t.Msgs = append(t.Msgs, leaf) // blocked message at top level
			default:
				if r.Chance(0.4) {
					t.Msgs = append(t.Msgs, c06Node{K: "grant", U: 2 + r.Intn(2)})
				} else {
					t.Msgs = append(t.Msgs, c06Node{K: "send"})
				}
			}
		}
		p, _ := json.Marshal(t)
		return e.Step{K: "tx", Op: "tree", A: a, B: w.AnyAcct(r), P: p}
	case 2:
		opts := []string{"eth", "web3", "dynfee", "unknown"}
		t := c06Tx{Route: "plain", Msgs: []c06Node{{K: []string{"send", "eth"}[r.Intn(2)]}}}
		n := 1 + r.Intn(3)
		for i := 0; i < n; i++ {
			t.Ext = append(t.Ext, opts[r.Intn(len(opts))])
		}
		if r.Chance(0.25) {
			// an otherwise valid Ethereum tx with something behind the Ethereum option
			t.Msgs = []c06Node{{K: "eth"}}
			t.Ext = []string{"eth", []string{"dynfee", "web3", "eth"}[r.Intn(3)]}
		}
		p, _ := json.Marshal(t)
		return e.Step{K: "tx", Op: "ext", A: a, B: w.AnyAcct(r), P: p}
	default:
		// positive controls: plain eth tx on the eth route; allowed nested exec
		t := c06Tx{Route: "eth", Msgs: []c06Node{{K: "eth"}}}
		if r.Chance(0.6) {
			t = c06Tx{Route: []string{"plain", "dynfee"}[r.Intn(2)], Msgs: []c06Node{{K: "exec", C: []c06Node{{K: "send"}, {K: "exec", C: []c06Node{{K: "send"}}}}}}}
		}
		p, _ := json.Marshal(t)
		return e.Step{K: "tx", Op: "control", A: a, B: w.AnyAcct(r), P: p}
	}
}

// ---- independent classification (never consults the ante handler)

func treeHas(n c06Node, pred func(c06Node, int) bool, depth int) bool {
	if pred(n, depth) {
		return true
	}
	for _, c := range n.C {
		if treeHas(c, pred, depth+1) {
			return true
		}
	}
	return false
}

func treeDepth(n c06Node) int {
	d := 0
	for _, c := range n.C {
		if x := treeDepth(c); x > d {
			d = x
		}
	}
	return d + 1
}

// forbidden reports whether the statement requires this tx to be rejected.
func (t c06Tx) forbidden() (bool, string) {
	exts := t.Ext
	if exts == nil {
		switch t.Route {
		case "dynfee":
			exts = []string{"dynfee"}
		case "web3":
			exts = []string{"web3"}
		case "eth":
			exts = []string{"eth"}
		}
	}
	for _, x := range exts {
		if x == "unknown" {
			return true, "unknown-extension-option"
		}
	}
	// A list that starts with the dynamic-fee option selects the Cosmos route, whose
	// checker knows no other option: whatever else rides along is unknown to it.
	if len(exts) > 1 && exts[0] == "dynfee" {
		for _, x := range exts[1:] {
			if x != "dynfee" {
				return true, "option-unknown-to-the-cosmos-route"
			}
		}
	}
	// The Ethereum and the EIP-712 route are selected by their one option and know
	// no other: anything that rides along behind it is unknown to them.
	if len(exts) > 1 && (exts[0] == "eth" || exts[0] == "web3") {
		return true, "extra-option-on-" + exts[0] + "-route"
	}
	ethRoute := len(exts) > 0 && exts[0] == "eth"
	if ethRoute {
		for _, m := range t.Msgs {
			if m.K != "eth" {
				return true, "non-ethereum-msg-on-eth-route"
			}
		}
		return false, ""
	}
	for _, m := range t.Msgs {
		if treeHas(m, func(n c06Node, _ int) bool { return n.K == "eth" }, 0) {
			return true, "ethereum-msg-on-cosmos-route"
		}
		if treeHas(m, func(n c06Node, d int) bool { return n.K == "vest" && d > 0 }, 0) {
			return true, "blocked-msg-in-exec"
		}
		if treeHas(m, func(n c06Node, _ int) bool { return n.K == "grant" && n.U <= 1 }, 0) {
			return true, "grant-of-blocked-type"
		}
	}
	return false, ""
}

func (p c06) build(w *e.World, a, b *e.Account, n c06Node, ethNonce *uint64) (sdk.Msg, bool) {
	switch n.K {
	case "send":
		return banktypes.NewMsgSend(a.Acc, b.Acc, e.Native(big.NewInt(7))), true
	case "eth":
		to := common.Address(b.Eth)
		nonce := *ethNonce
		*ethNonce++
		m, err := w.NewEthMsg(a, e.EthArgs{Type: 2, To: &to, Value: big.NewInt(5), Gas: 60000, Nonce: &nonce})
		if err != nil {
			return nil, false
		}
		return m, true
	case "vest":
		return sdkvesting.NewMsgCreateVestingAccount(a.Acc, b.Acc, e.Native(big.NewInt(1000)), w.Now.Unix()+1000, false), true
	case "grant":
		urls := []string{sdk.MsgTypeURL(&evmtypes.MsgEthereumTx{}), sdk.MsgTypeURL(&sdkvesting.MsgCreateVestingAccount{}), sdk.MsgTypeURL(&banktypes.MsgSend{})}
		var auth authz.Authorization
		if n.U == 3 {
			auth = banktypes.NewSendAuthorization(e.Native(big.NewInt(100)), nil)
		} else {
			auth = authz.NewGenericAuthorization(urls[n.U%3])
		}
		exp := w.Now.Add(time.Hour)
		m, err := authz.NewMsgGrant(a.Acc, b.Acc, auth, &exp)
		if err != nil || a.Acc.Equals(b.Acc) {
			return nil, false
		}
		return m, true
	case "exec":
		var inner []sdk.Msg
		for _, c := range n.C {
			m, ok := p.build(w, a, b, c, ethNonce)
			if !ok {
				return nil, false
			}
			inner = append(inner, m)
		}
		m := authz.NewMsgExec(a.Acc, inner)
		return &m, true
	}
	return nil, false
}

func extAny(kind string) *codectypes.Any {
	var v interface {
		Reset()
		String() string
		ProtoMessage()
	}
	switch kind {
	case "eth":
		v = &evmtypes.ExtensionOptionsEthereumTx{}
	case "web3":
		v = &haqqtypes.ExtensionOptionsWeb3Tx{FeePayer: "", TypedDataChainID: 121799}
	case "dynfee":
		v = &haqqtypes.ExtensionOptionDynamicFeeTx{MaxPriorityPrice: sdkmath.NewInt(1)}
	default:
		v = &banktypes.MsgSend{} // not an extension option at all
	}
	any, err := codectypes.NewAnyWithValue(v)
	if err != nil {
		panic(err)
	}
	return any
}

func (p c06) Exec(w *e.World, st *e.Step) *e.Violation {
	if v, ok := ExecCommon(w, st); ok {
		return v
	}
	if st.K != "tx" || st.A >= len(w.Accts) {
		return nil
	}
	var t c06Tx
	if json.Unmarshal(st.P, &t) != nil || len(t.Msgs) == 0 {
		return nil
	}
	a, b := w.Acct(st.A), w.Acct(st.B)
	ethNonce := w.EthNonce(a.Eth)
	var msgs []sdk.Msg
	for _, n := range t.Msgs {
		m, ok := p.build(w, a, b, n, &ethNonce)
		if !ok {
			return nil
		}
		msgs = append(msgs, m)
	}
	forb, why := t.forbidden()
	var bz []byte
	var err error
	allEth := true
	for _, n := range t.Msgs {
		if n.K != "eth" {
			allEth = false
		}
	}
	exts := t.Ext
	switch {
	case exts == nil && t.Route == "eth" && allEth:
		var em []*evmtypes.MsgEthereumTx
		for _, m := range msgs {
			em = append(em, m.(*evmtypes.MsgEthereumTx))
		}
		bz, err = w.WrapEthMsgs(em...)
	case len(exts) > 1 && exts[0] == "eth" && allEth:
		// a well-formed Ethereum envelope with further options behind the Ethereum one
		var em []*evmtypes.MsgEthereumTx
		for _, m := range msgs {
			em = append(em, m.(*evmtypes.MsgEthereumTx))
		}
		var extra []*codectypes.Any
		for _, x := range exts[1:] {
			extra = append(extra, extAny(x))
		}
		bz, err = w.WrapEthMsgsExt(extra, em...)
	case exts == nil && t.Route == "web3":
		bz, err = w.BuildCosmosTx(a, e.TxOpts{EIP712: true, Gas: 1_500_000}, msgs...)
		if err == nil {
			// when the legacy typed data cannot express the tree the builder signs
			// normally; force the Web3 route anyway so the route rules are what rejects it
			if tx, derr := w.TxConfig().TxDecoder()(bz); derr == nil {
				if ho, ok := tx.(interface{ GetExtensionOptions() []*codectypes.Any }); ok && len(ho.GetExtensionOptions()) == 0 {
					bz, err = w.BuildCosmosTx(a, e.TxOpts{Gas: 1_500_000, ExtOpts: []*codectypes.Any{extAny("web3")}}, msgs...)
				}
			}
		}
	default:
		if exts == nil {
			switch t.Route {
			case "dynfee":
				exts = []string{"dynfee"}
			case "eth":
				exts = []string{"eth"}
			}
		}
		var anys []*codectypes.Any
		for _, x := range exts {
			anys = append(anys, extAny(x))
		}
		bz, err = w.BuildCosmosTx(a, e.TxOpts{Gas: 1_500_000, ExtOpts: anys}, msgs...)
	}
	if err != nil || bz == nil {
		return nil
	}
	pre := c03Fingerprint(w)
	res := w.DeliverTx(bz)
	post := c03Fingerprint(w)
	w.Stats.Oracle++
	w.Stats.Op(st.Op, res.Code == 0)
	d := pre.diff(post)
	hasEthEvent := false
	for _, ev := range res.Events {
		if ev.Type == "ethereum_tx" {
			hasEthEvent = true
		}
	}
	depth := 0
	for _, n := range t.Msgs {
		if x := treeDepth(n); x > depth {
			depth = x
		}
	}
	desc := fmt.Sprintf("route %s ext %v, message tree %s (depth %d) by acct %d: code %d log %q", t.Route, t.Ext, trunc(string(st.P), 300), depth, st.A, res.Code, trunc(res.Log, 140))
	if forb {
		if res.Code == 0 || d != "" || hasEthEvent {
			return e.Violatef("route-bypass", "forbidden-tx-had-effect:"+why+":route="+t.Route, "%s: %s (ethereum_tx event: %v)", desc, d, hasEthEvent)
		}
		w.Stats.Probe("forbidden_rejected")
		w.Stats.State(fmt.Sprintf("%s:%s:depth=%d", why, t.Route, depth))
		if depth >= 4 {
			w.Stats.Probe("deep_forbidden_rejected")
		}
		return nil
	}
	if hasEthEvent && !(len(exts) > 0 && exts[0] == "eth") && t.Route != "eth" {
		return e.Violatef("route-bypass", "ethereum-tx-event-outside-eth-route", "%s", desc)
	}
	if res.Code == 0 {
		if t.Route == "eth" {
			w.Stats.Probe("eth_route_succeeded")
		} else if depth >= 2 {
			w.Stats.Probe("allowed_nested_exec_succeeded")
		}
	}
	return nil
}

func (c06) Final(w *e.World) *e.Violation {
	Tail(w, 2)
	return nil
}
