package props

import (
	"fmt"
	"math/big"
	"os"

	abci "github.com/cometbft/cometbft/abci/types"
	sdk "github.com/cosmos/cosmos-sdk/types"
	distrtypes "github.com/cosmos/cosmos-sdk/x/distribution/types"
	govtypes "github.com/cosmos/cosmos-sdk/x/gov/types"
	govv1 "github.com/cosmos/cosmos-sdk/x/gov/types/v1"
	stakingtypes "github.com/cosmos/cosmos-sdk/x/staking/types"

	e "haqqsim/engine"
)

// C14 — slashing and deposit burns go to the community pool, not to zero.
//
// Validator faults are the injected faults: duplicate-vote evidence at past
// heights, downtime until the signing window trips, both in one block, while
// delegations, unbondings and redelegations are in flight; proposals with
// deposits end vetoed / below quorum / expired under swarm-drawn burn flags.
// Oracles: (a) fault-free twin: the block boundary is forked, the twin gets the
// same BeginBlock without evidence and with every validator signing; supply
// must be equal in both and  communityPool_fault - communityPool_clean
// = distrModule_fault - distrModule_clean = stakingPools_clean - stakingPools_fault.
// (b) across every EndBlock: supply unchanged, coins leaving the gov module =
// refunds (bank transfer events) + community-pool growth. (c) negative control:
// burns by other modules (liquid vesting redeem) still reduce supply.
type c14 struct{}

func init() { register("C14", func() e.Profile { return &c14{} }) }

func (c14) ID() string { return "C14" }

func (c14) Configure(r *e.RNG, tier string) e.Config {
	c := e.DefaultConfig()
	c.NVals = int(r.Range(2, 4))
	c.NAccts = c.NVals + int(r.Range(2, 3))
	c.Coinomics = false
	c.NoBaseFee = r.Chance(0.5)
	c.ExtraDenoms = []string{"utest"}
	c.UnbondingSecs = []int64{30, 600, 1_814_400}[r.Intn(3)]
	c.SlashWindow = r.Range(2, 6)
	c.MinSigned = []string{"0.5", "0.9", "0.1"}[r.Intn(3)]
	c.SlashDowntime = []string{"0.01", "0.000000000000000001", "0.5", "0.333333333333333333"}[r.Intn(4)]
	c.SlashDoubleSign = []string{"0.05", "0.5", "1", "0.000000000000000001", "0.333333333333333333"}[r.Intn(5)]
	c.DowntimeJailSecs = r.Range(1, 100)
	c.GovVotingSecs = r.Range(3, 30)
	c.BurnVoteQuorum = r.Chance(0.6)
	c.BurnVoteVeto = r.Chance(0.7)
	c.BurnPropDeposit = r.Chance(0.6)
	c.ValStake = []string{"1000000000000000000000", "3333333333333333333333", "1000000000000000000"}[r.Intn(3)]
	c.Flags["w_blk"] = r.Range(6, 12)
	c.Flags["w_stake"] = r.Range(2, 8)
	c.Flags["w_gov"] = r.Range(1, 6)
	c.Flags["w_lv"] = r.Range(0, 2)
	c.Flags["p_absent"] = r.Range(20, 70)
	c.Flags["p_evidence"] = r.Range(3, 25)
	c.Flags["absent_val"] = r.Range(1, int64(c.NVals-1))
	return c
}

func (c14) Length(cfg e.Config, tier string) int {
	if tier == "thorough" {
		return 300
	}
	return 100
}

func (c14) Tier(tier string) (uint64, int64) {
	if tier == "thorough" {
		return 3000, 2400
	}
	return 160, 300
}

func (c14) MandatoryProbes() []string {
	return []string{"slash_redirected_to_pool", "deposit_burn_redirected", "twin_compared"}
}

type c14Obs struct {
	supply map[string]*big.Int
	cp     map[string]*big.Int // community pool, truncated... kept as 18-dec scaled integers
	distr  map[string]*big.Int
	gov    map[string]*big.Int
	pools  *big.Int
	out    *big.Int // sum of validators' outstanding rewards (native denom), scaled by 1e18
	accts  *big.Int // sum of the native balances of all user accounts
}

func coinsMap(cs sdk.Coins) map[string]*big.Int {
	m := map[string]*big.Int{}
	for _, c := range cs {
		m[c.Denom] = c.Amount.BigInt()
	}
	return m
}

func c14Observe(w *e.World, ctx sdk.Context) c14Obs { return c14ObserveOn(w.Reps[0], ctx) }

func c14ObserveOn(r *e.Replica, ctx sdk.Context) c14Obs {
	a := r.App
	o := c14Obs{supply: map[string]*big.Int{}, cp: map[string]*big.Int{}}
	for _, d := range []string{e.Denom, "utest"} {
		o.supply[d] = a.BankKeeper.GetSupply(ctx, d).Amount.BigInt()
	}
	for _, dc := range a.DistrKeeper.GetFeePool(ctx).CommunityPool {
		o.cp[dc.Denom] = dc.Amount.BigInt() // Dec scaled by 1e18
	}
	o.distr = coinsMap(a.BankKeeper.GetAllBalances(ctx, e.ModuleAddr(distrtypes.ModuleName)))
	o.gov = coinsMap(a.BankKeeper.GetAllBalances(ctx, e.ModuleAddr(govtypes.ModuleName)))
	b := a.BankKeeper.GetBalance(ctx, e.ModuleAddr(stakingtypes.BondedPoolName), e.Denom).Amount.BigInt()
	nb := a.BankKeeper.GetBalance(ctx, e.ModuleAddr(stakingtypes.NotBondedPoolName), e.Denom).Amount.BigInt()
	o.pools = new(big.Int).Add(b, nb)
	o.out = new(big.Int)
	a.DistrKeeper.IterateValidatorOutstandingRewards(ctx, func(_ sdk.ValAddress, rw distrtypes.ValidatorOutstandingRewards) bool {
		o.out.Add(o.out, rw.Rewards.AmountOf(e.Denom).BigInt())
		return false
	})
	o.accts = new(big.Int)
	for i := 0; i < 64; i++ {
		acc := e.NewAccount(e.KeySeed, i)
		o.accts.Add(o.accts, a.BankKeeper.GetBalance(ctx, acc.Acc, e.Denom).Amount.BigInt())
		if i >= 16 && a.AccountKeeper.GetAccount(ctx, acc.Acc) == nil {
			break
		}
	}
	return o
}

type c14Model struct {
	pre       c14Obs
	preHeight int64
}

func (c14) Setup(w *e.World) error {
	m := &c14Model{}
	w.Ext["c14"] = m
	w.OnBoundary = func(w *e.World) *e.Violation { return c14EndBlock(w, m) }
	return nil
}

func sub(a, b *big.Int) *big.Int { return new(big.Int).Sub(a, b) }

// c14EndBlock: direct accounting around the gov EndBlocker.
func c14EndBlock(w *e.World, m *c14Model) *e.Violation {
	if m.preHeight != w.Height {
		return nil
	}
	pre := m.pre
	post := c14Observe(w, w.CommittedCtx())
	w.Stats.Oracle++
	govAddr := e.ModuleAddr(govtypes.ModuleName).String()
	distrAddr := e.ModuleAddr(distrtypes.ModuleName).String()
	// refunds and redirected burns according to the bank events of EndBlock
	refunds, toDistr := map[string]*big.Int{}, map[string]*big.Int{}
	for _, ev := range w.LastEndEvents {
		if ev.Type != "transfer" {
			continue
		}
		var sender, recipient, amount string
		for _, a := range ev.Attributes {
			switch a.Key {
			case "sender":
				sender = a.Value
			case "recipient":
				recipient = a.Value
			case "amount":
				amount = a.Value
			}
		}
		if sender != govAddr {
			continue
		}
		cs, err := sdk.ParseCoinsNormalized(amount)
		if err != nil {
			continue
		}
		for _, c := range cs {
			dst := refunds
			if recipient == distrAddr {
				dst = toDistr
			}
			dst[c.Denom] = new(big.Int).Add(get(dst, c.Denom), c.Amount.BigInt())
		}
	}
	for _, d := range []string{e.Denom, "utest"} {
		if get(post.supply, d).Cmp(get(pre.supply, d)) != 0 {
			return e.Violatef("burn-redirect", "supply-changed-in-endblock:"+d, "block %d: supply of %s went from %s to %s during EndBlock (gov module %s -> %s)", w.Height, d, get(pre.supply, d), get(post.supply, d), get(pre.gov, d), get(post.gov, d))
		}
		left := sub(get(pre.gov, d), get(post.gov, d)) // coins that left the gov module
		dcp := sub(get(post.cp, d), get(pre.cp, d))    // scaled by 1e18
		ddistr := sub(get(post.distr, d), get(pre.distr, d))
		want := sub(left, get(refunds, d)) // what was neither kept nor refunded must be in the pool
		// A validator that staking removes in this EndBlock (unbonded with no
		// tokens left) has its commission paid out (W) and the remainder of its
		// outstanding rewards (R >= 0) moved into the community pool by the
		// distribution hook; both are visible as a drop of the outstanding rewards.
		W, R := new(big.Int), new(big.Int)
		if d == e.Denom && post.out.Cmp(pre.out) != 0 {
			// (accounts also receive unbonding entries that mature in this EndBlock,
			// paid from the staking pools)
			W = sub(sub(sub(post.accts, pre.accts), get(refunds, d)), sub(pre.pools, post.pools))
			R = sub(sub(pre.out, post.out), new(big.Int).Mul(W, scale))
			if W.Sign() < 0 || R.Sign() < 0 {
				return e.Violatef("burn-redirect", "outstanding-rewards-changed-in-endblock", "block %d: outstanding rewards went from %s to %s (1e-18) during EndBlock while accounts gained %s beyond the refunds", w.Height, pre.out, post.out, W)
			}
			w.Stats.Probe("validator_removed_in_endblock")
		}
		if new(big.Int).Add(new(big.Int).Mul(want, scale), R).Cmp(dcp) != 0 {
			return e.Violatef("burn-redirect", "gov-burn-not-in-community-pool:"+d, "block %d, %s: gov module released %s, refunds %s, so %s were 'burned'; community pool grew by %s/1e18, distribution module by %s", w.Height, d, left, get(refunds, d), want, dcp, ddistr)
		}
		if ddistr.Cmp(sub(want, W)) != 0 {
			return e.Violatef("burn-redirect", "distribution-module-not-holding-burned-deposits:"+d, "block %d, %s: %s burned deposits but distribution module balance changed by %s", w.Height, d, want, ddistr)
		}
		if want.Sign() > 0 {
			w.Stats.Probe("deposit_burn_redirected")
			w.Stats.State("deposit-burn:" + d)
		}
		if get(refunds, d).Sign() > 0 {
			w.Stats.Probe("deposit_refunded")
		}
	}
	return nil
}

// c14Twin: fault-free twin of the BeginBlock that just ran with faults.
func c14Twin(w *e.World) *e.Violation {
	twin := w.Fork(0)
	req := w.BlockReq
	req.ByzantineValidators = nil
	votes := make([]abci.VoteInfo, len(req.LastCommitInfo.Votes))
	copy(votes, req.LastCommitInfo.Votes)
	for i := range votes {
		votes[i].SignedLastBlock = true
	}
	req.LastCommitInfo = abci.CommitInfo{Votes: votes}
	twin.DB.Phase = "begin"
	twin.App.BeginBlock(req)
	clean := c14ObserveOn(twin, w.CtxOf(twin))
	fault := c14Observe(w, w.Ctx())
	w.Stats.Oracle++
	w.Stats.Probe("twin_compared")
	for _, d := range []string{e.Denom, "utest"} {
		if get(clean.supply, d).Cmp(get(fault.supply, d)) != 0 {
			return e.Violatef("slash-redirect", "supply-changed-by-slashing:"+d, "block %d: supply %s with the validator faults vs %s without", w.Height, get(fault.supply, d), get(clean.supply, d))
		}
	}
	// slashed: what left the staking pools because of the faults.
	// W: rewards that the slashing hooks paid out to delegators (slashing a
	// redelegation unbonds at the destination validator, which withdraws rewards).
	// R: what those withdrawals and zero-token validators moved from outstanding
	// rewards into the community pool (truncation remainders), never negative.
	dPools := sub(clean.pools, fault.pools)
	dCP := sub(get(fault.cp, e.Denom), get(clean.cp, e.Denom))
	dDistr := sub(get(fault.distr, e.Denom), get(clean.distr, e.Denom))
	W := sub(fault.accts, clean.accts)
	R := sub(sub(clean.out, fault.out), new(big.Int).Mul(W, scale))
	if dPools.Sign() < 0 {
		return e.Violatef("slash-redirect", "staking-pools-grew-by-slashing", "block %d: staking pools hold %s more with the faults", w.Height, new(big.Int).Neg(dPools))
	}
	if dDistr.Cmp(sub(dPools, W)) != 0 {
		return e.Violatef("slash-redirect", "distribution-module-not-holding-slashed-coins", "block %d: staking pools lost %s, hooks paid %s rewards out, but the distribution module balance changed by %s", w.Height, dPools, W, dDistr)
	}
	want := new(big.Int).Add(new(big.Int).Mul(dPools, scale), R)
	if R.Sign() < 0 || want.Cmp(dCP) != 0 {
		return e.Violatef("slash-redirect", "slashed-stake-not-in-community-pool", "block %d: staking pools lost %s to slashing; community pool gained %s/1e18, expected %s/1e18 (= slashed + %s/1e18 moved from outstanding rewards; rewards paid out by hooks: %s)", w.Height, dPools, dCP, want, R, W)
	}
	if W.Sign() != 0 {
		w.Stats.Probe("slash_hook_paid_rewards")
	}
	if dPools.Sign() > 0 {
		w.Stats.Probe("slash_redirected_to_pool")
		kind := "downtime"
		if len(w.BlockReq.ByzantineValidators) > 0 {
			kind = "double-sign"
		}
		w.Stats.State("slash:" + kind)
	}
	return nil
}

func (c14) Gen(w *e.World, r *e.RNG) e.Step {
	f := w.Cfg.Flags
	switch r.Weighted([]int{int(f["w_blk"]), int(f["w_stake"]), int(f["w_gov"]), int(f["w_lv"])}) {
	case 0:
		bf := &e.BlockFaults{Proposer: r.Intn(len(w.Vals))}
		if int64(r.Intn(100)) < f["p_absent"] {
			bf.Absent = []int{int(f["absent_val"])} // the same validator keeps missing blocks until the window trips
			if r.Chance(0.1) {
				bf.Absent = append(bf.Absent, r.Intn(len(w.Vals)))
			}
		}
		if int64(r.Intn(100)) < f["p_evidence"] && w.Height > 2 {
			bf.Evidence = []e.EvRec{{Val: r.Intn(len(w.Vals)), Height: r.Range(1, w.Height-1), AgeSec: r.Range(0, 20)}}
		}
		return e.BlkStep(r.Range(500, 8000), bf)
	case 1:
		ops := []string{"delegate", "delegate", "undelegate", "redelegate", "send", "withdraw"}
		return Ops[ops[r.Intn(len(ops))]].Gen(w, r)
	case 2:
		switch r.Intn(4) {
		case 0, 1:
			// text proposal with a full or partial deposit, sometimes in a second denomination too
			dep := e.BigS(w.Cfg.GovMinDeposit)
			if r.Chance(0.35) {
				dep = r.Amount(dep)
			}
			s := []string{dep.String()}
			if r.Chance(0.3) {
				s = append(s, r.Amount(big.NewInt(1_000_000)).String())
			}
			return e.Step{K: "tx", Op: "gov_text", A: r.Intn(nAcc(w)), S: s}
		case 2:
			return Ops["gov_deposit"].Gen(w, r)
		default:
			a := r.Intn(len(w.Vals))
			opt := []int64{4, 4, 3, 1, 2}[r.Intn(5)] // veto heavy
			return e.Step{K: "tx", Op: "gov_vote", A: a, N: []int64{int64(pickProposal(w, r)), opt}}
		}
	default:
		ops := []string{"vest_create", "send", "lv_liquidate", "lv_redeem"}
		return Ops[ops[r.Intn(len(ops))]].Gen(w, r)
	}
}

func (p c14) Exec(w *e.World, st *e.Step) *e.Violation {
	m := w.Ext["c14"].(*c14Model)
	switch st.K {
	case "blk":
		m.pre = c14Observe(w, w.Ctx())
		m.preHeight = w.Height
		w.MustBlk(st)
		if w.Diverge != nil {
			return nil // reported by the runner
		}
		if st.F != nil && (len(st.F.Absent) > 0 || len(st.F.Evidence) > 0) {
			return c14Twin(w)
		}
	case "tx":
		if st.Op == "gov_text" {
			a := w.Acct(st.A)
			dep := e.Native(e.BigS(st.SArg(0)))
			if st.SArg(1) != "" {
				dep = dep.Add(e.C("utest", e.BigS(st.SArg(1))))
			}
			msg, err := govv1.NewMsgSubmitProposal(nil, dep, a.Acc.String(), "ipfs://meta", "t", "s")
			if err != nil {
				return nil
			}
			res, err := w.DoCosmos(a, e.TxOpts{}, msg)
			if err == nil {
				w.Stats.Op("gov_text", res.Code == 0)
				if os.Getenv("HAQQSIM_OPLOG") == "gov_text" {
					fmt.Fprintln(os.Stderr, "OPLOG gov_text", res.Code, trunc(res.Log, 200))
				}
			}
			return nil
		}
		if st.Op == "lv_redeem" {
			// negative control: the liquid-vesting module's burn must still reduce supply
			d := st.SArg(0)
			before := w.App().BankKeeper.GetSupply(w.Ctx(), d).Amount.BigInt()
			cpBefore := c14Observe(w, w.Ctx())
			res, ok := ExecOp(w, st)
			if ok && res.Code == 0 {
				after := w.App().BankKeeper.GetSupply(w.Ctx(), d).Amount.BigInt()
				w.Stats.Oracle++
				w.Stats.Probe("other_module_burn_checked")
				if sub(before, after).Cmp(e.BigS(st.SArg(1))) != 0 {
					return e.Violatef("burn-redirect", "other-module-burn-not-burned", "redeem of %s %s: supply went from %s to %s", st.SArg(1), d, before, after)
				}
				cpAfter := c14Observe(w, w.Ctx())
				if get(cpAfter.cp, d).Cmp(get(cpBefore.cp, d)) != 0 {
					return e.Violatef("burn-redirect", "other-module-burn-redirected", "redeem of %s %s changed the community pool", st.SArg(1), d)
				}
			}
			return nil
		}
		ExecOp(w, st)
	}
	return nil
}

func (p c14) Final(w *e.World) *e.Violation {
	for i := 0; i < 3; i++ {
		st := e.BlkStep(2000, nil)
		if v := p.Exec(w, &st); v != nil {
			return v
		}
	}
	return nil
}

var _ = fmt.Sprint
