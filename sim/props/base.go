package props

import (
	"fmt"

	e "haqqsim/engine"
)

// Registry of profiles by property id.
var Registry = map[string]func() e.Profile{}

func register(id string, f func() e.Profile) { Registry[id] = f }

// Base provides the steps every profile shares: block production with clock
// and validator faults, replica crash/restart.
type Base struct{}

// ClockDt draws the time to the next block (milliseconds) from the mixture
// described in DESIGN §2.2: minimum BFT step, seconds, minutes, days, months.
func ClockDt(r *e.RNG) int64 {
	switch r.Weighted([]int{10, 50, 15, 10, 5, 3}) {
	case 0:
		return 1
	case 1:
		return r.Range(1000, 10000)
	case 2:
		return r.Range(60_000, 3_600_000)
	case 3:
		return r.Range(86_400_000, 5*86_400_000)
	case 4:
		return r.Range(20*86_400_000, 70*86_400_000)
	default:
		return r.Range(300*86_400_000, 400*86_400_000)
	}
}

// ExecCommon executes blk / crash steps. ok=false if the step kind is not common.
func ExecCommon(w *e.World, st *e.Step) (v *e.Violation, ok bool) {
	switch st.K {
	case "blk":
		w.MustBlk(st)
		return nil, true
	case "crash":
		i := st.A
		if i < 0 || i >= len(w.Reps) {
			return nil, true
		}
		v, err := w.Restart(i)
		if err != nil {
			panic(fmt.Errorf("restart: %w", err))
		}
		return v, true
	}
	return nil, false
}

// Tail runs n fault-free blocks (bounded-liveness guard: the chain must still
// commit blocks once faults stop).
func Tail(w *e.World, n int) {
	for i := 0; i < n; i++ {
		st := e.BlkStep(2000, nil)
		w.MustBlk(&st)
	}
}
