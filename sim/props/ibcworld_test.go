package props

import (
	"fmt"
	"math/big"
	"testing"
)

func TestIBCWorldSmoke(t *testing.T) {
	iw, err := newIBCWorld(7, 3)
	if err != nil {
		t.Fatal(err)
	}
	show := func(tag string) {
		for fi, f := range iw.fams {
			line := fmt.Sprintf("%s fam %d %s:", tag, fi, f.Name)
			for c := 0; c < 2; c++ {
				for u := range iw.users[c] {
					co, tk := iw.holding(f, c, iw.users[c][u].Acc)
					line += fmt.Sprintf(" c%du%d=%s/%s", c, u, co, tk)
				}
			}
			fmt.Println(line)
		}
	}
	show("init")
	for fi := range iw.fams {
		c := iw.fams[fi].Home
		p, err := iw.send(c, fi, 0, 1, big.NewInt(1000), 10)
		fmt.Println("send", fi, err)
		if err != nil {
			continue
		}
		res, err := iw.recv(p)
		fmt.Println("recv", fi, err)
		if err == nil {
			for _, ev := range res.GetEvents() {
				if ev.Type == "write_acknowledgement" {
					for _, a := range ev.Attributes {
						if a.Key == "packet_ack" {
							fmt.Println("  ack:", a.Value)
							p.Ack = []byte(a.Value)
						}
					}
				}
			}
			_, err = iw.ack(p)
			fmt.Println("ack", fi, err)
		}
	}
	show("after")
}
