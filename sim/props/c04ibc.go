package props

import (
	"encoding/json"
	"fmt"
	"math/big"
	"sort"
	"strings"

	abci "github.com/cometbft/cometbft/abci/types"
	sdk "github.com/cosmos/cosmos-sdk/types"
	transfertypes "github.com/cosmos/ibc-go/v7/modules/apps/transfer/types"
	clienttypes "github.com/cosmos/ibc-go/v7/modules/core/02-client/types"
	"github.com/ethereum/go-ethereum/common"
	"github.com/ethereum/go-ethereum/crypto"

	evmtypes "github.com/haqq-network/haqq/x/evm/types"

	e "haqqsim/engine"
	"haqqsim/evmprog"
)

// C04 for the ICS-20 precompile — "precompiles act only for the signer or
// caller, within grants". A tenth of the C04 runs use the two-chain world
// (there is no channel on a single chain): users of chain 0 give frame-
// interpreter contracts transfer allowances (allocations per channel with
// per-denomination limits and receiver allow lists), change and revoke them,
// and run programs in which the contracts call ics20.transfer for the signer,
// for themselves and for third parties.
//
// Oracle per transaction, from the pre/post grant state and the decoded call
// trace: a committed transfer names the signer or the calling contract as
// sender; when the caller is not the signer a live allocation from the signer
// to that caller covers channel, denomination, cumulative amount and receiver;
// afterwards every limit is reduced by exactly what was spent (an exhausted
// grant is gone); approve / increase / decrease / revoke leave exactly the
// stated allocation; nobody else's holdings or grants change.

type c04mux struct{ evm *evmprof }

func newC04() e.Profile { return &c04mux{evm: &evmprof{"C04"}} }

func (c04mux) ID() string { return "C04" }

func (m *c04mux) Configure(r *e.RNG, tier string) e.Config {
	if r.Chance(0.1) {
		c := e.DefaultConfig()
		c.NVals, c.NAccts = 1, 2
		c.Flags["ibc"] = 1
		c.Flags["w_approve"] = r.Range(3, 6)
		c.Flags["w_adjust"] = r.Range(1, 4)
		c.Flags["w_prog"] = r.Range(5, 9)
		c.Flags["w_direct"] = r.Range(1, 3)
		c.Flags["w_blk"] = r.Range(0, 2)
		return c
	}
	return m.evm.Configure(r, tier)
}

func (m *c04mux) Length(cfg e.Config, tier string) int {
	if isIBC(cfg) {
		if tier == "thorough" {
			return 90
		}
		return 35
	}
	return m.evm.Length(cfg, tier)
}

func (m *c04mux) Tier(tier string) (uint64, int64) { return m.evm.Tier(tier) }

func (m *c04mux) MandatoryProbes() []string {
	return append(m.evm.MandatoryProbes(), "ics20_transfer_by_contract_within_allocation", "ics20_transfer_refused", "ics20_allocation_lifecycle_checked")
}

const nICSFic = 2

type c04ibc struct {
	iw   *ibcWorld
	fics []common.Address
}

// icsCall is the symbolic form of one ics20.transfer call inside a program.
type icsCall struct {
	Fam    int    `json:"fam"`
	Amt    string `json:"amt"`
	Sender string `json:"sender"` // "user:i" | "fic:k"
	Recv   int    `json:"recv"`   // user on the other chain
}

func (x *c04ibc) Address(t string) (common.Address, bool) {
	var i int
	switch {
	case strings.HasPrefix(t, "fic:"):
		fmt.Sscanf(t, "fic:%d", &i)
		if i >= 0 && i < len(x.fics) {
			return x.fics[i], true
		}
	case strings.HasPrefix(t, "user:"):
		fmt.Sscanf(t, "user:%d", &i)
		if i >= 0 && i < len(x.iw.users[0]) {
			return x.iw.users[0][i].Eth, true
		}
	case t == "pre:ics20":
		return addrICS20, true
	}
	return common.Address{}, false
}

func (x *c04ibc) CallData(n *evmprog.Node) ([]byte, bool) {
	if n.Call == nil {
		return nil, false
	}
	var c icsCall
	if json.Unmarshal(n.Call, &c) != nil {
		return nil, false
	}
	iw := x.iw
	sender, ok := x.Address(c.Sender)
	if !ok {
		return nil, false
	}
	src, dst := iw.ch[0], iw.ch[1]
	rev := clienttypes.ParseChainID(dst.tc.ChainID)
	data, err := loadABI("ics20").Pack("transfer", src.ep.ChannelConfig.PortID, src.ep.ChannelID, iw.denomOn(iw.fams[c.Fam%len(iw.fams)], 0), e.BigS(c.Amt), sender,
		iw.users[1][c.Recv%len(iw.users[1])].Acc.String(), ics20Height{rev, uint64(dst.tc.CurrentHeader.Height) + 1000}, uint64(0), "")
	return data, err == nil
}

// ethTx delivers an Ethereum transaction of acct on chain 0 in its own block.
func (x *c04ibc) ethTx(acct *e.Account, to *common.Address, data []byte, gas uint64) (abci.ResponseDeliverTx, *evmtypes.MsgEthereumTxResponse) {
	iw := x.iw
	chain := iw.ch[0].tc
	iw.coord.UpdateTimeForChain(chain)
	ctx := chain.GetContext()
	nonce := iw.ch[0].app.EvmKeeper.GetNonce(ctx, acct.Eth)
	price := new(big.Int).Mul(iw.ch[0].app.FeeMarketKeeper.GetBaseFee(ctx), big.NewInt(2))
	if price.Sign() == 0 {
		price = big.NewInt(1_000_000_000)
	}
	bz, _, err := iw.w.BuildEthTx(acct, e.EthArgs{Type: 2, To: to, Gas: gas, Data: data, Nonce: &nonce, GasPrice: price, ChainID: iw.ch[0].app.EvmKeeper.ChainID()})
	if err != nil {
		panic(fmt.Errorf("harness: build eth tx: %w", err))
	}
	res := chain.App.DeliverTx(abci.RequestDeliverTx{Tx: bz})
	if iw.stats != nil {
		iw.stats.Txs++
		iw.stats.Blocks++
		if res.Code == 0 {
			iw.stats.TxsOK++
		}
	}
	chain.NextBlock()
	iw.coord.IncrementTime()
	iw.syncRelayer(0)
	if res.Code != 0 {
		return res, nil
	}
	r, err := iw.w.EthResponse(e.TxResult{Code: res.Code, Data: res.Data, Log: res.Log})
	if err != nil {
		return res, nil
	}
	return res, r
}

func (m *c04mux) Setup(w *e.World) error {
	if !isIBC(w.Cfg) {
		return m.evm.Setup(w)
	}
	iw, err := newIBCWorld(e.KeySeed, 3)
	if err != nil {
		return err
	}
	iw.stats, iw.w = w.Stats, w
	x := &c04ibc{iw: iw}
	dep := iw.users[0][0]
	for i := 0; i < nICSFic; i++ {
		nonce := iw.ch[0].app.EvmKeeper.GetNonce(iw.ctx(0), dep.Eth)
		res, r := x.ethTx(dep, nil, evmprog.Deployer(evmprog.FIC()), 1_000_000)
		if res.Code != 0 || r == nil || r.Failed() {
			return fmt.Errorf("deploy FIC on chain 0 failed: %s", res.Log)
		}
		x.fics = append(x.fics, crypto.CreateAddress(dep.Eth, nonce))
	}
	// the contracts own some of the bank coin themselves
	for _, f := range x.fics {
		if err := iw.mint(0, sdk.AccAddress(f.Bytes()), sdk.NewCoins(sdk.NewInt64Coin(iw.fams[0].Base, 1_000_000))); err != nil {
			return err
		}
	}
	iw.total[0] = new(big.Int).Add(iw.total[0], big.NewInt(int64(nICSFic)*1_000_000))
	iw.commit(0)
	w.Ext["c04ibc"] = x
	w.Ext["ibc"] = iw
	return nil
}

// ---- state read by the oracle

type icsAlloc struct {
	Limits map[string]*big.Int // denom -> limit (nil: unbounded)
	Allow  map[string]bool     // nil: any receiver
}

type c04ibcSnap struct {
	grants map[string]*icsAlloc // "grantee|granter" for the one channel
	hold   map[string][]*big.Int
}

func (x *c04ibc) actors() []struct {
	name string
	addr common.Address
} {
	var out []struct {
		name string
		addr common.Address
	}
	for i, u := range x.iw.users[0] {
		out = append(out, struct {
			name string
			addr common.Address
		}{fmt.Sprintf("user:%d", i), u.Eth})
	}
	for i, f := range x.fics {
		out = append(out, struct {
			name string
			addr common.Address
		}{fmt.Sprintf("fic:%d", i), f})
	}
	return out
}

var unbounded = new(big.Int).Sub(new(big.Int).Lsh(big.NewInt(1), 256), big.NewInt(1))

func (x *c04ibc) snap() c04ibcSnap {
	iw := x.iw
	s := c04ibcSnap{grants: map[string]*icsAlloc{}, hold: map[string][]*big.Int{}}
	ep := iw.ch[0].ep
	acts := x.actors()
	for _, g := range acts {
		for _, o := range acts {
			auth, _ := iw.ch[0].app.AuthzKeeper.GetAuthorization(iw.ctx(0), g.addr.Bytes(), o.addr.Bytes(), sdk.MsgTypeURL(&transfertypes.MsgTransfer{}))
			ta, ok := auth.(*transfertypes.TransferAuthorization)
			if !ok || ta == nil {
				continue
			}
			for _, al := range ta.Allocations {
				if al.SourcePort != ep.ChannelConfig.PortID || al.SourceChannel != ep.ChannelID {
					continue
				}
				a := &icsAlloc{Limits: map[string]*big.Int{}}
				for _, c := range al.SpendLimit {
					if c.Amount.BigInt().Cmp(unbounded) == 0 {
						a.Limits[c.Denom] = nil
					} else {
						a.Limits[c.Denom] = c.Amount.BigInt()
					}
				}
				if len(al.AllowList) > 0 {
					a.Allow = map[string]bool{}
					for _, r := range al.AllowList {
						a.Allow[r] = true
					}
				}
				s.grants[g.name+"|"+o.name] = a
			}
		}
	}
	for _, a := range acts {
		for _, f := range iw.fams {
			co, tk := iw.holding(f, 0, sdk.AccAddress(a.addr.Bytes()))
			s.hold[a.name] = append(s.hold[a.name], new(big.Int).Add(co, tk))
		}
	}
	return s
}

func allocString(a *icsAlloc) string {
	if a == nil {
		return "none"
	}
	var ks []string
	for d, l := range a.Limits {
		if l == nil {
			ks = append(ks, d+"=unbounded")
		} else {
			ks = append(ks, d+"="+l.String())
		}
	}
	sort.Strings(ks)
	return strings.Join(ks, ",") + fmt.Sprintf(" allow=%d", len(a.Allow))
}

// ---- generation

type icsApprove struct {
	M     string   `json:"m"` // approve | increaseAllowance | decreaseAllowance | revoke
	To    string   `json:"to"`
	Fams  []int    `json:"fams,omitempty"`
	Amts  []string `json:"amts,omitempty"`
	Allow []int    `json:"allow,omitempty"` // receivers (users of chain 1); empty: anyone
	Other bool     `json:"other,omitempty"` // allocation for a channel that does not exist
}

func (m *c04mux) Gen(w *e.World, r *e.RNG) e.Step {
	if !isIBC(w.Cfg) {
		return m.evm.Gen(w, r)
	}
	x := w.Ext["c04ibc"].(*c04ibc)
	iw := x.iw
	f := w.Cfg.Flags
	signer := r.Intn(len(iw.users[0]))
	famsHome := []int{}
	for fi, fm := range iw.fams {
		if fm.Home == 0 {
			famsHome = append(famsHome, fi)
		}
	}
	amt := func() string {
		if r.Chance(0.15) {
			return unbounded.String()
		}
		return fmt.Sprint(r.Range(1, 5000))
	}
	switch r.Weighted([]int{int(f["w_approve"]), int(f["w_adjust"]), int(f["w_prog"]), int(f["w_direct"]), int(f["w_blk"])}) {
	case 0:
		a := icsApprove{M: "approve", To: fmt.Sprintf("fic:%d", r.Intn(nICSFic))}
		if r.Chance(0.1) {
			a.To = fmt.Sprintf("user:%d", r.Intn(len(iw.users[0])))
		}
		for _, fi := range r.Perm(len(famsHome))[:1+r.Intn(len(famsHome))] {
			a.Fams = append(a.Fams, famsHome[fi])
			a.Amts = append(a.Amts, amt())
		}
		if r.Chance(0.3) {
			a.Allow = []int{r.Intn(len(iw.users[1]))}
		}
		a.Other = r.Chance(0.3)
		w.Ext["ics_last_grant"] = [2]int{signer, int(a.To[len(a.To)-1] - '0')}
		p, _ := json.Marshal(a)
		return e.Step{K: "ibc", Op: "approve", A: signer, P: p}
	case 1:
		a := icsApprove{M: []string{"increaseAllowance", "decreaseAllowance", "revoke"}[r.Intn(3)], To: fmt.Sprintf("fic:%d", r.Intn(nICSFic)),
			Fams: []int{famsHome[r.Intn(len(famsHome))]}, Amts: []string{fmt.Sprint(r.Range(1, 3000))}}
		if lg, ok := w.Ext["ics_last_grant"].([2]int); ok && r.Chance(0.6) {
			signer, a.To = lg[0], fmt.Sprintf("fic:%d", lg[1]%nICSFic)
		}
		a.Other = a.M != "revoke" && r.Chance(0.3)
		p, _ := json.Marshal(a)
		return e.Step{K: "ibc", Op: "approve", A: signer, P: p}
	case 2:
		fic := r.Intn(nICSFic)
		if lg, ok := w.Ext["ics_last_grant"].([2]int); ok && r.Chance(0.6) {
			signer, fic = lg[0], lg[1]%nICSFic
		}
		var nodes []*evmprog.Node
		for i := 1 + r.Intn(3); i > 0; i-- {
			c := icsCall{Fam: famsHome[r.Intn(len(famsHome))], Amt: fmt.Sprint(r.Range(1, 3000)), Sender: fmt.Sprintf("user:%d", signer), Recv: r.Intn(len(iw.users[1]))}
			switch r.Intn(8) {
			case 0:
				c.Sender = fmt.Sprintf("fic:%d", fic) // the contract's own funds
			case 1:
				c.Sender = fmt.Sprintf("user:%d", (signer+1)%len(iw.users[0])) // a third party
			case 2:
				c.Sender = fmt.Sprintf("fic:%d", (fic+1)%nICSFic) // another contract
			}
			raw, _ := json.Marshal(c)
			node := &evmprog.Node{Kind: evmprog.OpCall, Target: "pre:ics20", Catch: true, Call: raw}
			if r.Chance(0.2) {
				// through a second contract: the immediate caller is that contract
				node = &evmprog.Node{Kind: evmprog.OpCall, Target: fmt.Sprintf("fic:%d", (fic+1)%nICSFic), Catch: true, Sub: []*evmprog.Node{node}}
			}
			nodes = append(nodes, node)
		}
		p, _ := json.Marshal(Prog{FIC: fic, Nodes: nodes})
		return e.Step{K: "ibc", Op: "prog", A: signer, P: p}
	case 3:
		c := icsCall{Fam: famsHome[r.Intn(len(famsHome))], Amt: fmt.Sprint(r.Range(1, 3000)), Sender: fmt.Sprintf("user:%d", signer), Recv: r.Intn(len(iw.users[1]))}
		if r.Chance(0.2) {
			c.Sender = fmt.Sprintf("user:%d", (signer+1)%len(iw.users[0]))
		}
		p, _ := json.Marshal(c)
		return e.Step{K: "ibc", Op: "direct", A: signer, P: p}
	default:
		return e.Step{K: "ibc", Op: "blk", N: []int64{int64(r.Intn(2)), r.Range(1, 3)}}
	}
}

type icsABIAlloc struct {
	SourcePort    string
	SourceChannel string
	SpendLimit    []icsABICoin
	AllowList     []string
}

type icsABICoin struct {
	Denom  string
	Amount *big.Int
}

type committedICS struct {
	call   icsCall
	caller string // "fic:k" or "user:i" (direct)
}

// collect walks the decoded trace and returns the ics20 calls that succeeded in frames that all succeeded.
func collectICS(frames []*evmprog.Frame, self string, out *[]committedICS, failed *int) {
	for _, fr := range frames {
		if fr.Node.Call != nil {
			var c icsCall
			json.Unmarshal(fr.Node.Call, &c)
			if fr.Success {
				*out = append(*out, committedICS{call: c, caller: self})
			} else {
				*failed++
			}
			continue
		}
		if fr.Node.Sub != nil && fr.Success {
			collectICS(fr.Sub, fr.Node.Target, out, failed)
		}
	}
}

func (m *c04mux) Exec(w *e.World, st *e.Step) *e.Violation {
	if !isIBC(w.Cfg) {
		return m.evm.Exec(w, st)
	}
	if st.K != "ibc" {
		return nil
	}
	x := w.Ext["c04ibc"].(*c04ibc)
	iw := x.iw
	if st.A < 0 || st.A >= len(iw.users[0]) {
		return nil
	}
	signer := iw.users[0][st.A]
	signerName := fmt.Sprintf("user:%d", st.A)
	ep := iw.ch[0].ep
	pre := x.snap()
	var committed []committedICS
	failed := 0
	desc := fmt.Sprintf("%s by %s: %s", st.Op, signerName, trunc(string(st.P), 500))
	switch st.Op {
	case "blk":
		c := int(st.NArg(0)) % 2
		for i := int64(0); i < st.NArg(1) && i < 6; i++ {
			iw.commit(c)
		}
		return nil
	case "approve":
		var a icsApprove
		if json.Unmarshal(st.P, &a) != nil {
			return nil
		}
		to, ok := x.Address(a.To)
		if !ok {
			return nil
		}
		var data []byte
		var err error
		port, channel := ep.ChannelConfig.PortID, ep.ChannelID
		if a.Other {
			channel = "channel-77"
		}
		switch a.M {
		case "approve":
			al := icsABIAlloc{SourcePort: port, SourceChannel: ep.ChannelID}
			for i, fi := range a.Fams {
				al.SpendLimit = append(al.SpendLimit, icsABICoin{iw.denomOn(iw.fams[fi%len(iw.fams)], 0), e.BigS(a.Amts[i])})
			}
			for _, r := range a.Allow {
				al.AllowList = append(al.AllowList, iw.users[1][r%len(iw.users[1])].Acc.String())
			}
			allocs := []icsABIAlloc{al}
			if a.Other {
				// a second allocation on the same port for another channel, with other limits
				o := icsABIAlloc{SourcePort: port, SourceChannel: "channel-77"}
				for _, c := range al.SpendLimit {
					o.SpendLimit = append(o.SpendLimit, icsABICoin{c.Denom, big.NewInt(777_000)})
				}
				if len(a.Allow)%2 == 0 {
					allocs = []icsABIAlloc{o, al}
				} else {
					allocs = append(allocs, o)
				}
			}
			data, err = loadABI("ics20").Pack("approve", to, allocs)
		case "increaseAllowance", "decreaseAllowance":
			data, err = loadABI("ics20").Pack(a.M, to, port, channel, iw.denomOn(iw.fams[a.Fams[0]%len(iw.fams)], 0), e.BigS(a.Amts[0]))
		case "revoke":
			data, err = loadABI("ics20").Pack("revoke", to)
		}
		if err != nil {
			return nil
		}
		target := addrICS20
		res, r := x.ethTx(signer, &target, data, 1_000_000)
		ok = res.Code == 0 && r != nil && !r.Failed()
		w.Stats.Op("ics20_"+a.M, ok)
		post := x.snap()
		key := a.To + "|" + signerName
		before, after := pre.grants[key], post.grants[key]
		if ok {
			w.Stats.Probe("ics20_allocation_lifecycle_checked")
			want := map[string]*big.Int{}
			switch a.M {
			case "approve":
				for i, fi := range a.Fams {
					want[iw.denomOn(iw.fams[fi%len(iw.fams)], 0)] = e.BigS(a.Amts[i])
				}
			case "revoke":
				// nothing is left
			default:
				if a.Other {
					// aimed at the allocation of the other channel: this channel's allocation must not move
					if allocString(before) != allocString(after) {
						return e.Violatef("precompile-authority", "ics20-allowance-change-hit-another-channel:"+a.M, "%s for channel-77 changed the allocation of %s from %s to %s", desc, ep.ChannelID, allocString(before), allocString(after))
					}
					w.Stats.Probe("ics20_other_channel_adjusted")
					return x.nonInterference(w, pre, post, signerName, nil, desc)
				}
				if before == nil {
					return e.Violatef("precompile-authority", "ics20-allowance-changed-without-grant:"+a.M, "%s succeeded although no allocation existed", desc)
				}
				d := iw.denomOn(iw.fams[a.Fams[0]%len(iw.fams)], 0)
				for k, v := range before.Limits {
					if v == nil {
						want[k] = unbounded
					} else {
						want[k] = new(big.Int).Set(v)
					}
				}
				cur, has := want[d]
				if !has {
					cur = new(big.Int)
				}
				if cur.Cmp(unbounded) == 0 {
					// arithmetic on the "no limit" sentinel: whether it stays unbounded or
					// becomes a huge finite limit is the granter's own business
					delete(want, d)
					if after != nil {
						if _, has := after.Limits[d]; has {
							want[d] = nil
						}
					}
				} else {
					if a.M == "increaseAllowance" {
						want[d] = new(big.Int).Add(cur, e.BigS(a.Amts[0]))
					} else {
						want[d] = new(big.Int).Sub(cur, e.BigS(a.Amts[0]))
						if want[d].Sign() < 0 {
							return e.Violatef("precompile-authority", "ics20-allowance-decreased-below-zero", "%s succeeded with a limit of %s", desc, cur)
						}
					}
				}
			}
			got := map[string]*big.Int{}
			if after != nil {
				for k, v := range after.Limits {
					if v == nil {
						got[k] = unbounded
					} else {
						got[k] = v
					}
				}
			}
			for k, v := range want {
				if v == nil || v.Sign() == 0 {
					continue // (sentinel case above) / a zero limit may be kept or dropped
				}
				if got[k] == nil || got[k].Cmp(v) != 0 {
					return e.Violatef("precompile-authority", "ics20-allocation-lifecycle-wrong:"+a.M, "%s: allocation was %s, is %s; expected %s=%s", desc, allocString(before), allocString(after), k, v)
				}
			}
			for k, v := range got {
				if _, ok := want[k]; !ok && v.Sign() != 0 {
					return e.Violatef("precompile-authority", "ics20-allocation-lifecycle-wrong:"+a.M, "%s: allocation was %s, is %s; %s was not granted", desc, allocString(before), allocString(after), k)
				}
			}
		} else if allocString(before) != allocString(after) {
			return e.Violatef("precompile-authority", "ics20-failed-call-changed-allocation:"+a.M, "%s failed, yet the allocation went from %s to %s", desc, allocString(before), allocString(after))
		}
		return x.nonInterference(w, pre, post, signerName, nil, desc)
	case "direct":
		var c icsCall
		if json.Unmarshal(st.P, &c) != nil {
			return nil
		}
		raw, _ := json.Marshal(c)
		data, ok := x.CallData(&evmprog.Node{Call: raw})
		if !ok {
			return nil
		}
		target := addrICS20
		res, r := x.ethTx(signer, &target, data, 1_000_000)
		if res.Code == 0 && r != nil && !r.Failed() {
			committed = append(committed, committedICS{call: c, caller: signerName})
		} else {
			failed++
		}
	case "prog":
		var pr Prog
		if json.Unmarshal(st.P, &pr) != nil || pr.FIC < 0 || pr.FIC >= len(x.fics) {
			return nil
		}
		data, err := evmprog.Encode(pr.Nodes, x)
		if err != nil {
			return nil
		}
		fic := x.fics[pr.FIC]
		res, r := x.ethTx(signer, &fic, data, 4_000_000)
		w.Stats.Op("ics20_prog", res.Code == 0 && r != nil && !r.Failed())
		if res.Code == 0 && r != nil && !r.Failed() {
			frames, _ := evmprog.Decode(pr.Nodes, r.Ret)
			collectICS(frames, fmt.Sprintf("fic:%d", pr.FIC), &committed, &failed)
		}
	default:
		return nil
	}
	post := x.snap()
	w.Stats.Oracle++
	if failed > 0 {
		w.Stats.Probe("ics20_transfer_refused")
	}
	// authority of every committed transfer
	spent := map[string]map[string]*big.Int{} // grant key -> denom -> amount
	moved := map[string][]*big.Int{}          // actor -> per family amount sent
	for _, c := range committed {
		fam := c.call.Fam % len(iw.fams)
		denom := iw.denomOn(iw.fams[fam], 0)
		amt := e.BigS(c.call.Amt)
		if c.call.Sender != signerName && c.call.Sender != c.caller {
			return e.Violatef("precompile-authority", "ics20-transfer-for-third-party", "%s: %s transferred %s %s of %s, who is neither the signer nor the caller", desc, c.caller, amt, denom, c.call.Sender)
		}
		if moved[c.call.Sender] == nil {
			moved[c.call.Sender] = make([]*big.Int, len(iw.fams))
			for i := range moved[c.call.Sender] {
				moved[c.call.Sender][i] = new(big.Int)
			}
		}
		moved[c.call.Sender][fam].Add(moved[c.call.Sender][fam], amt)
		if c.caller == signerName {
			continue // the owner of the funds acts itself
		}
		key := c.caller + "|" + signerName
		al := pre.grants[key]
		recv := iw.users[1][c.call.Recv%len(iw.users[1])].Acc.String()
		if al == nil {
			return e.Violatef("precompile-authority", "ics20-spend-without-grant", "%s: %s transferred for the signer without an allocation from the signer", desc, c.caller)
		}
		lim, has := al.Limits[denom]
		if !has {
			return e.Violatef("precompile-authority", "ics20-spend-of-denomination-not-granted", "%s: the allocation %s does not cover %s", desc, allocString(al), denom)
		}
		if al.Allow != nil && !al.Allow[recv] {
			return e.Violatef("precompile-authority", "ics20-receiver-not-in-allow-list", "%s: receiver %s is not in the allocation's allow list", desc, recv)
		}
		if spent[key] == nil {
			spent[key] = map[string]*big.Int{}
		}
		if spent[key][denom] == nil {
			spent[key][denom] = new(big.Int)
		}
		spent[key][denom].Add(spent[key][denom], amt)
		if lim != nil && spent[key][denom].Cmp(lim) > 0 {
			return e.Violatef("precompile-authority", "ics20-allocation-overspent", "%s: %s spent %s of a limit of %s %s", desc, c.caller, spent[key][denom], lim, denom)
		}
		w.Stats.Probe("ics20_transfer_by_contract_within_allocation")
	}
	// allowance arithmetic
	for key, per := range spent {
		for denom, amt := range per {
			lim := pre.grants[key].Limits[denom]
			if lim == nil {
				continue
			}
			want := new(big.Int).Sub(lim, amt)
			var got *big.Int
			if g := post.grants[key]; g != nil {
				got = g.Limits[denom]
				if _, has := g.Limits[denom]; has && got == nil {
					got = unbounded
				}
			}
			if got == nil {
				got = new(big.Int)
			}
			if got.Cmp(want) != 0 {
				return e.Violatef("precompile-authority", "ics20-allowance-not-reduced-by-amount-used", "%s: limit of %s was %s, %s were spent, now %s", desc, denom, lim, amt, got)
			}
		}
	}
	return x.nonInterference(w, pre, post, signerName, moved, desc)
}

// nonInterference: holdings move only by what the committed transfers say; grants of others are untouched.
func (x *c04ibc) nonInterference(w *e.World, pre, post c04ibcSnap, signer string, moved map[string][]*big.Int, desc string) *e.Violation {
	w.Stats.Probe("noninterference_checked")
	for name, hs := range pre.hold {
		for fi := range hs {
			want := new(big.Int).Set(hs[fi])
			if mv := moved[name]; mv != nil {
				want.Sub(want, mv[fi])
			}
			if post.hold[name][fi].Cmp(want) != 0 {
				return e.Violatef("precompile-authority", "ics20-holdings-changed-unexpectedly", "%s: %s held %s of %s before, %s after, expected %s", desc, name, hs[fi], x.iw.fams[fi].Name, post.hold[name][fi], want)
			}
		}
	}
	for key, a := range pre.grants {
		if strings.HasSuffix(key, "|"+signer) {
			continue
		}
		if allocString(a) != allocString(post.grants[key]) {
			return e.Violatef("precompile-authority", "ics20-third-party-grant-changed", "%s: the allocation %s went from %s to %s", desc, key, allocString(a), allocString(post.grants[key]))
		}
	}
	for key, a := range post.grants {
		if _, ok := pre.grants[key]; !ok && !strings.HasSuffix(key, "|"+signer) {
			return e.Violatef("precompile-authority", "ics20-third-party-grant-changed", "%s: an allocation %s = %s appeared", desc, key, allocString(a))
		}
	}
	return nil
}

func (m *c04mux) Final(w *e.World) *e.Violation {
	if !isIBC(w.Cfg) {
		return m.evm.Final(w)
	}
	return nil
}
