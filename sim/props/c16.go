package props

import (
	"encoding/json"
	"fmt"
	"math/big"
	"strings"

	tmed "github.com/cometbft/cometbft/crypto/ed25519"
	cryptocodec "github.com/cosmos/cosmos-sdk/crypto/codec"
	sdk "github.com/cosmos/cosmos-sdk/types"
	distrtypes "github.com/cosmos/cosmos-sdk/x/distribution/types"
	stakingtypes "github.com/cosmos/cosmos-sdk/x/staking/types"
	"github.com/ethereum/go-ethereum/common"

	e "haqqsim/engine"

	evmtypes "github.com/haqq-network/haqq/x/evm/types"
)

// C16 — a precompile call has exactly the effect of the native message.
//
// At seeded points of simulated histories (states with delegations, unbondings,
// redelegations in flight, accrued rewards, slashed / jailed validators) the
// block boundary is forked: fork N includes the native message signed by the
// owner, fork P an Ethereum tx from the same owner calling the precompile
// directly. Fees are zero. success(N) <=> success(P) and the Cosmos stores must
// be equal. Read-only methods are compared with the module's own state.
type c16 struct{}

func init() { register("C16", func() e.Profile { return &c16{} }) }

func (c16) ID() string { return "C16" }

func (c16) Configure(r *e.RNG, tier string) e.Config {
	c := e.DefaultConfig()
	c.NVals = int(r.Range(2, 3))
	c.NAccts = c.NVals + int(r.Range(3, 4))
	c.NoBaseFee = true
	c.MinGasPrice = "0"
	c.MinGasMult = "0"
	c.UnbondingSecs = []int64{30, 3600, 1_814_400}[r.Intn(3)]
	c.SlashWindow = r.Range(3, 8)
	c.SlashDowntime = []string{"0.01", "0.5"}[r.Intn(2)]
	c.SlashDoubleSign = []string{"0.05", "0.5"}[r.Intn(2)]
	c.LVMinimum = "1"
	c.Flags["w_blk"] = r.Range(3, 6)
	c.Flags["w_hist"] = r.Range(4, 8)
	c.Flags["w_diff"] = r.Range(4, 8)
	c.Flags["w_query"] = r.Range(2, 5)
	c.Flags["w_liquid"] = r.Range(0, 3)
	c.Flags["p_absent"] = r.Range(0, 40)
	c.Flags["p_evidence"] = r.Range(0, 10)
	// fees are zero, so staking rewards (and everything that pays them out as a
	// side effect) exist only when coinomics mints
	c.Coinomics = r.Chance(0.7)
	// slash_bias: frequent double-sign evidence with long unbonding times, so that
	// unbonding and redelegation entries are slashed while they are still pending
	if r.Chance(0.3) {
		c.Flags["slash_bias"] = 1
		c.Flags["p_evidence"] = r.Range(15, 35)
		c.UnbondingSecs = []int64{3600, 1_814_400}[r.Intn(2)]
		c.SlashDoubleSign = "0.5"
	}
	return c
}

func (c16) Length(cfg e.Config, tier string) int {
	if tier == "thorough" {
		return 200
	}
	return 60
}

func (c16) Tier(tier string) (uint64, int64) {
	if tier == "thorough" {
		return 2500, 2400
	}
	return 128, 300
}

func (c16) MandatoryProbes() []string {
	return []string{"native_vs_precompile_compared", "both_succeeded", "both_failed", "query_compared"}
}

func (c16) Setup(w *e.World) error {
	if err := setupEVMWorld(w); err != nil {
		return err
	}
	// warm-up: every precompile address gets its (empty) account on first use; do
	// that before any differential so it cannot show up as a difference
	dep := w.Acct(ew(w).deployer)
	for _, pc := range []*PCall{{PC: "staking", M: "delegation", Who: "acct:0"}, {PC: "distribution", M: "withdrawDelegatorRewards", Who: fmt.Sprintf("acct:%d", ew(w).deployer)}, {PC: "bank", M: "totalSupply"}} {
		data, ok := ew(w).packPCall(w, pc)
		if !ok {
			return fmt.Errorf("warm-up pack failed")
		}
		to, _ := ew(w).resolveAddr(w, "pre:"+pc.PC)
		w.DoEth(dep, e.EthArgs{Type: 2, To: &to, Gas: 1_000_000, Data: data})
	}
	st := e.BlkStep(4000, nil)
	w.MustBlk(&st)
	return nil
}

func (c16) Gen(w *e.World, r *e.RNG) e.Step {
	f := w.Cfg.Flags
	owner := r.Intn(nAcc(w))
	switch r.Weighted([]int{int(f["w_blk"]), int(f["w_hist"]), int(f["w_diff"]), int(f["w_query"]), int(f["w_liquid"])}) {
	case 0:
		st := genBlk(w, r)
		if st.Dt > 40*86400*1000 {
			st.Dt = r.Range(1000, 4_000_000)
		}
		return st
	case 1:
		ops := []string{"delegate", "delegate", "undelegate", "redelegate", "withdraw", "set_withdraw", "send"}
		return Ops[ops[r.Intn(len(ops))]].Gen(w, r)
	case 2:
		pc := genPCall(w, r, owner, -1)
		pc.Who = fmt.Sprintf("acct:%d", owner) // the owner calls for itself
		for !pc.stateChanging() {
			pc = genPCall(w, r, owner, -1)
			pc.Who = fmt.Sprintf("acct:%d", owner)
		}
		// argument variety: existing delegation sizes, zero, above balance, huge, invalid validator
		switch r.Weighted([]int{4, 1, 1, 1, 1}) {
		case 0:
			if ds := delegations(w); len(ds) > 0 && r.Chance(0.7) {
				d := ds[r.Intn(len(ds))]
				owner = d.a
				pc.Who = fmt.Sprintf("acct:%d", owner)
				pc.Val = int(d.val)
				pc.Amt = r.Amount(d.amt).String()
			}
		case 1:
			pc.Amt = "0"
		case 2:
			pc.Amt = new(big.Int).Add(w.Balance(w.Acct(owner).Acc), big.NewInt(r.Range(0, 2))).String()
		case 3:
			pc.Amt = new(big.Int).Lsh(big.NewInt(1), uint(r.Range(64, 255))).String()
		default:
			pc.Val = -1
		}
		if r.Chance(0.08) {
			// becoming a validator, preferably as an account whose coins are partly unvested
			pc = &PCall{PC: "staking", M: "createValidator"}
			if va := vestingAccts(w); len(va) > 0 && r.Chance(0.7) {
				owner = va[r.Intn(len(va))]
			}
			bal := w.Balance(w.Acct(owner).Acc)
			pc.Amt = r.Amount(bal).String()
			if r.Chance(0.3) {
				pc.Amt = bal.String()
			}
			pc.Who = fmt.Sprintf("acct:%d", owner)
		}
		raw, _ := json.Marshal(pc)
		return e.Step{K: "diff", A: owner, P: raw}
	case 3:
		pc := &PCall{Who: fmt.Sprintf("acct:%d", w.AnyAcct(r)), Val: r.Intn(len(w.Vals))}
		switch r.Intn(5) {
		case 0:
			pc.PC, pc.M = "staking", "delegation"
		case 1:
			pc.PC, pc.M = "staking", "unbondingDelegation"
		case 2:
			pc.PC, pc.M = "bank", "balances"
		case 3:
			pc.PC, pc.M = "bank", "totalSupply"
		default:
			pc.PC, pc.M = "staking", "delegation"
			pc.Who = fmt.Sprintf("fic:%d", r.Intn(nFIC))
		}
		if r.Chance(0.6) {
			// the wider read-only surface (compared as canonical trees, see c16query.go)
			pc.Val2 = r.Intn(len(w.Vals))
			switch r.Intn(11) {
			case 0:
				pc.PC, pc.M = "staking", "validator"
			case 1, 2:
				pc.PC, pc.M = "staking", "validators"
				pc.To = []string{"", "", "BOND_STATUS_BONDED", "BOND_STATUS_UNBONDING", "BOND_STATUS_UNBONDED"}[r.Intn(5)]
			case 3:
				pc.PC, pc.M = "staking", "redelegation"
				for _, i := range allIdx(w) {
					if reds := w.App().StakingKeeper.GetRedelegations(w.Ctx(), w.Acct(i).Acc, 5); len(reds) > 0 && r.Chance(0.7) {
						red := reds[r.Intn(len(reds))]
						pc.Who = fmt.Sprintf("acct:%d", i)
						for vi, v := range w.Vals {
							if v.ValAddr.String() == red.ValidatorSrcAddress {
								pc.Val = vi
							}
							if v.ValAddr.String() == red.ValidatorDstAddress {
								pc.Val2 = vi
							}
						}
						break
					}
				}
			case 4:
				pc.PC, pc.M = "staking", "allowance"
				pc.To = fmt.Sprintf("fic:%d", r.Intn(nFIC))
				pc.Methods = []string{stakingMsgURLs[r.Intn(len(stakingMsgURLs))]}
			case 5:
				pc.PC, pc.M = "distribution", "delegationRewards"
			case 6:
				pc.PC, pc.M = "distribution", "delegationTotalRewards"
			case 7:
				pc.PC, pc.M = "distribution", "delegatorValidators"
			case 8:
				pc.PC, pc.M = "distribution", "delegatorWithdrawAddress"
			case 9:
				pc.PC, pc.M = "distribution", "validatorCommission"
			default:
				pc.PC, pc.M = "distribution", "validatorOutstandingRewards"
			}
		}
		if pc.M == "unbondingDelegation" && r.Chance(0.8) {
			// somebody who is unbonding right now (slashed entries differ from their initial balance)
			for _, i := range r.Perm(len(w.Accts) + e.NExtra) {
				if ubds := w.App().StakingKeeper.GetUnbondingDelegations(w.Ctx(), w.Acct(i).Acc, 3); len(ubds) > 0 {
					u := ubds[r.Intn(len(ubds))]
					pc.Who = fmt.Sprintf("acct:%d", i)
					for vi, v := range w.Vals {
						if v.ValAddr.String() == u.ValidatorAddress {
							pc.Val = vi
						}
					}
					break
				}
			}
		} else if ds := delegations(w); len(ds) > 0 && r.Chance(0.6) && pc.M != "redelegation" && pc.M != "validators" {
			d := ds[r.Intn(len(ds))]
			pc.Who, pc.Val = fmt.Sprintf("acct:%d", d.a), int(d.val)
		}
		raw, _ := json.Marshal(pc)
		return e.Step{K: "query", A: owner, P: raw}
	default:
		ops := []string{"vest_create", "send", "lv_liquidate", "erc20_convert_erc20"}
		return Ops[ops[r.Intn(len(ops))]].Gen(w, r)
	}
}

func valString(w *e.World, idx int) string {
	if idx < 0 {
		return sdk.ValAddress(common.HexToAddress("0x00000000000000000000000000000000deadbeef").Bytes()).String()
	}
	return w.Vals[idx%len(w.Vals)].ValAddr.String()
}

func valAddrOf(w *e.World, idx int) sdk.ValAddress {
	v, _ := sdk.ValAddressFromBech32(valString(w, idx))
	return v
}

// nativeMsgs returns the native message(s) equivalent to a precompile call made by its owner.
func nativeMsgs(w *e.World, c *PCall, owner *e.Account) ([]sdk.Msg, bool) {
	amt := e.C(e.Denom, e.BigS(c.Amt))
	switch c.PC + "." + c.M {
	case "staking.delegate":
		return []sdk.Msg{stakingtypes.NewMsgDelegate(owner.Acc, valAddrOf(w, c.Val), amt)}, true
	case "staking.undelegate":
		return []sdk.Msg{stakingtypes.NewMsgUndelegate(owner.Acc, valAddrOf(w, c.Val), amt)}, true
	case "staking.redelegate":
		return []sdk.Msg{stakingtypes.NewMsgBeginRedelegate(owner.Acc, valAddrOf(w, c.Val), valAddrOf(w, c.Val2), amt)}, true
	case "staking.cancelUnbondingDelegation":
		return []sdk.Msg{stakingtypes.NewMsgCancelUnbondingDelegation(owner.Acc, valAddrOf(w, c.Val), c.Height, amt)}, true
	case "staking.createValidator":
		// the same validator the precompile call describes (evmworld.go packPCall)
		pk := tmed.GenPrivKeyFromSecret(append([]byte("haqqsim-new-validator"), owner.Eth.Bytes()...)).PubKey()
		sdkPk, err := cryptocodec.FromTmPubKeyInterface(pk)
		if err != nil {
			return nil, false
		}
		m, err := stakingtypes.NewMsgCreateValidator(sdk.ValAddress(owner.Acc), sdkPk, amt, stakingtypes.Description{Moniker: "sim-" + c.Who},
			stakingtypes.NewCommissionRates(sdk.NewDecWithPrec(1, 1), sdk.NewDecWithPrec(2, 1), sdk.NewDecWithPrec(1, 2)), sdk.OneInt())
		if err != nil {
			return nil, false
		}
		return []sdk.Msg{m}, true
	case "distribution.withdrawDelegatorRewards":
		return []sdk.Msg{distrtypes.NewMsgWithdrawDelegatorReward(owner.Acc, valAddrOf(w, c.Val))}, true
	case "distribution.setWithdrawAddress":
		to, _ := ew(w).resolveAddr(w, c.To)
		return []sdk.Msg{distrtypes.NewMsgSetWithdrawAddress(owner.Acc, sdk.AccAddress(to.Bytes()))}, true
	case "distribution.withdrawValidatorCommission":
		return []sdk.Msg{distrtypes.NewMsgWithdrawValidatorCommission(valAddrOf(w, c.Val))}, true
	}
	return nil, false
}

var c16Stores = []string{"staking", "distribution", "slashing", "authz", "bank", "ibc", "transfer", "capability", "gov", "vesting", "liquidvesting", "erc20", "ucdao", "coinomics"}

func (p c16) Exec(w *e.World, st *e.Step) *e.Violation {
	if v, ok := ExecCommon(w, st); ok {
		return v
	}
	switch st.K {
	case "tx":
		ExecOp(w, st)
	case "query":
		return p.query(w, st)
	case "diff":
		var pc PCall
		if json.Unmarshal(st.P, &pc) != nil || st.A >= len(w.Accts)+e.NExtra {
			return nil
		}
		owner := w.Acct(st.A)
		if pc.PC == "distribution" && pc.M == "withdrawValidatorCommission" {
			// the owner of a commission is the validator's operator
			if st.A >= len(w.Vals) {
				return nil
			}
			pc.Val = st.A
		}
		msgs, ok := nativeMsgs(w, &pc, owner)
		if !ok {
			return nil
		}
		// the differential needs the boundary: open a fresh block first
		blk := e.BlkStep(3000, nil)
		w.MustBlk(&blk)
		bzN, err := w.BuildCosmosTx(owner, e.TxOpts{Gas: 2_000_000}, msgs...)
		if err != nil {
			return nil
		}
		data, ok := ew(w).packPCall(w, &pc)
		if !ok {
			return nil
		}
		to, _ := ew(w).resolveAddr(w, "pre:"+pc.PC)
		bzP, _, err := w.BuildEthTx(owner, e.EthArgs{Type: 2, To: &to, Gas: 2_000_000, Data: data})
		if err != nil {
			return nil
		}
		N, P := w.Fork(0), w.Fork(0)
		for _, r := range []*e.Replica{N, P} {
			r.DB.Phase = "begin"
			r.App.BeginBlock(w.BlockReq)
		}
		resN := runOnFork(w, N, bzN)
		resP := runOnFork(w, P, bzP)
		okN := resN.Code == 0
		okP := false
		vmErr := ""
		if resP.Code == 0 {
			if r, err := w.EthResponse(resP); err == nil {
				okP = !r.Failed()
				vmErr = r.VmError
			}
		}
		finishFork(w, N)
		finishFork(w, P)
		w.Stats.Oracle++
		w.Stats.Probe("native_vs_precompile_compared")
		name := pc.PC + "." + pc.M
		desc := fmt.Sprintf("%s by acct %d with %s at height %d: native code %d (%s), precompile code %d (%s) vm error %q", name, st.A, trunc(string(st.P), 300), w.Height, resN.Code, trunc(resN.Log, 100), resP.Code, trunc(resP.Log, 300), vmErr)
		if okN != okP {
			which := "native-succeeds-precompile-fails"
			if okP {
				which = "precompile-succeeds-native-fails"
			}
			return e.Violatef("native-equivalence", "success-differs:"+name+":"+which, "%s", desc)
		}
		if okN {
			w.Stats.Probe("both_succeeded")
		} else {
			w.Stats.Probe("both_failed")
		}
		diffs := e.DiffStoreNames(N.App, P.App)
		var bad []string
		for _, s := range diffs {
			for _, c := range c16Stores {
				// (content, not hash: a key rewritten with the same value only changes IAVL node versions)
				if s == c && len(e.DiffStoreEntries(N.App, P.App, s)) > 0 {
					bad = append(bad, s)
				}
			}
		}
		if len(bad) > 0 {
			return e.Violatef("native-equivalence", "state-differs:"+name+":stores="+strings.Join(bad, ","), "%s; first differing keys of %s: %v", desc, bad[0], e.DiffStoreKV(N.App, P.App, bad[0], 3))
		}
		w.Stats.State(fmt.Sprintf("%s:ok=%v", name, okN))
		// the main history continues with the native form
		w.DeliverTx(bzN)
	}
	return nil
}

// query compares read-only precompile methods with the modules' own state.
func (p c16) query(w *e.World, st *e.Step) *e.Violation {
	var pc PCall
	if json.Unmarshal(st.P, &pc) != nil {
		return nil
	}
	m := ew(w)
	data, ok := m.packQuery(w, &pc)
	if !ok {
		return nil
	}
	to, _ := m.resolveAddr(w, "pre:"+pc.PC)
	from := w.Acct(st.A % len(w.Accts)).Eth
	args := fmt.Sprintf(`{"from":"%s","to":"%s","data":"0x%x"}`, from.Hex(), to.Hex(), data)
	ctx := w.Ctx()
	res, err := w.App().EvmKeeper.EthCall(sdk.WrapSDKContext(ctx), &evmtypes.EthCallRequest{Args: []byte(args), GasCap: 5_000_000, ProposerAddress: w.Header.ProposerAddress, ChainId: w.EthChainID().Int64()})
	if err != nil || res.Failed() {
		return nil
	}
	w.Stats.Oracle++
	w.Stats.Probe("query_compared")
	who, _ := m.resolveAddr(w, pc.Who)
	acc := sdk.AccAddress(who.Bytes())
	a := w.App()
	switch pc.PC + "." + pc.M {
	case "staking.delegation":
		out, err := loadABI("staking").Unpack("delegation", res.Ret)
		if err != nil || len(out) < 2 {
			return e.Violatef("native-equivalence", "query-undecodable:staking.delegation", "%v", err)
		}
		shares := out[0].(*big.Int)
		want := new(big.Int)
		wantBal := new(big.Int)
		if d, ok := a.StakingKeeper.GetDelegation(ctx, acc, valAddrOf(w, pc.Val)); ok {
			want = d.Shares.BigInt()
			if v, ok := a.StakingKeeper.GetValidator(ctx, valAddrOf(w, pc.Val)); ok {
				wantBal = v.TokensFromShares(d.Shares).TruncateInt().BigInt()
			}
			w.Stats.Probe("query_of_existing_delegation")
		}
		gotBal := new(big.Int)
		if s := fmt.Sprintf("%v", out[1]); true {
			// struct {Denom string; Amount *big.Int}
			fmt.Sscanf(s[strings.LastIndex(s, " ")+1:], "%d", new(int))
			if v, ok := out[1].(struct {
				Denom  string   `json:"denom"`
				Amount *big.Int `json:"amount"`
			}); ok {
				gotBal = v.Amount
			}
		}
		if shares.Cmp(want) != 0 {
			return e.Violatef("native-equivalence", "query-differs:staking.delegation:shares", "delegation(%s, val %d): precompile shares %s, staking module %s", pc.Who, pc.Val, shares, want)
		}
		if gotBal.Cmp(wantBal) != 0 {
			return e.Violatef("native-equivalence", "query-differs:staking.delegation:balance", "delegation(%s, val %d): precompile balance %s, staking module %s", pc.Who, pc.Val, gotBal, wantBal)
		}
	case "bank.totalSupply", "bank.balances":
		out, err := loadABI("bank").Unpack(pc.M, res.Ret)
		if err != nil || len(out) < 1 {
			return e.Violatef("native-equivalence", "query-undecodable:bank."+pc.M, "%v", err)
		}
		got := map[string]string{}
		if arr, ok := out[0].([]struct {
			ContractAddress common.Address `json:"contractAddress"`
			Amount          *big.Int       `json:"amount"`
		}); ok {
			for _, b := range arr {
				got[strings.ToLower(b.ContractAddress.Hex())] = b.Amount.String()
			}
		} else {
			return e.Violatef("native-equivalence", "query-undecodable:bank."+pc.M, "unexpected output type %T", out[0])
		}
		want := map[string]string{}
		for _, pair := range a.Erc20Keeper.GetTokenPairs(ctx) {
			var amt sdk.Coin
			if pc.M == "totalSupply" {
				amt = a.BankKeeper.GetSupply(ctx, pair.Denom)
			} else {
				amt = a.BankKeeper.GetBalance(ctx, acc, pair.Denom)
			}
			if amt.Amount.IsPositive() {
				want[strings.ToLower(pair.Erc20Address)] = amt.Amount.String()
				w.Stats.Probe("bank_query_with_token_pair")
			}
		}
		for k, v := range want {
			if got[k] != v {
				return e.Violatef("native-equivalence", "query-differs:bank."+pc.M, "bank.%s(%s): token %s precompile says %q, bank module %s", pc.M, pc.Who, k, got[k], v)
			}
		}
		for k, v := range got {
			if _, ok := want[k]; !ok && v != "0" {
				return e.Violatef("native-equivalence", "query-differs:bank."+pc.M+":extra", "bank.%s(%s) reports %s for %s which the bank module does not hold", pc.M, pc.Who, v, k)
			}
		}
	case "staking.unbondingDelegation":
		out, err := loadABI("staking").Unpack("unbondingDelegation", res.Ret)
		if err != nil {
			return e.Violatef("native-equivalence", "query-undecodable:staking.unbondingDelegation", "%v", err)
		}
		n := 0
		if u, ok := a.StakingKeeper.GetUnbondingDelegation(ctx, acc, valAddrOf(w, pc.Val)); ok {
			n = len(u.Entries)
		}
		s := fmt.Sprintf("%+v", out[0])
		got := strings.Count(s, "CreationHeight:")
		if got != n {
			return e.Violatef("native-equivalence", "query-differs:staking.unbondingDelegation", "unbondingDelegation(%s, val %d): precompile reports %d entries, staking module %d (%s)", pc.Who, pc.Val, got, n, trunc(s, 200))
		}
		return compareQueryTree(w, &pc, res.Ret, acc)
	default:
		return compareQueryTree(w, &pc, res.Ret, acc)
	}
	return nil
}

func (c16) Final(w *e.World) *e.Violation {
	Tail(w, 2)
	return nil
}
