package props

import (
	"crypto/sha256"
	"encoding/hex"
	"fmt"
	"strings"

	abci "github.com/cometbft/cometbft/abci/types"
	sdk "github.com/cosmos/cosmos-sdk/types"
	banktypes "github.com/cosmos/cosmos-sdk/x/bank/types"

	e "haqqsim/engine"

	evmtypes "github.com/haqq-network/haqq/x/evm/types"
	ucdaotypes "github.com/haqq-network/haqq/x/ucdao/types"
)

// The mixed profile drives every op family of the op library against R
// replicas. It is shared by C01 (replicas agree), C20 (restart changes
// nothing) and C15 (crisis invariants after every block).
type mixed struct{ id string }

func init() {
	register("C01", func() e.Profile { return &mixed{"C01"} })
	register("C20", func() e.Profile { return &mixed{"C20"} })
	register("C15", newC15)
}

func (m *mixed) ID() string { return m.id }

// NondeterministicApp: for C01 the application itself may be the
// nondeterministic party (Go map iteration order); a divergence whose minimised
// schedule does not fail again in the confirmation replay is still reported,
// with that caveat.
func (m *mixed) NondeterministicApp() bool { return m.id == "C01" }

func (m *mixed) Level() string {
	if m.id == "C20" {
		return "fault_enumeration"
	}
	return "exploration"
}

// mixedOps is the fixed order in which op weights are drawn.
var mixedOps = []string{"send", "delegate", "undelegate", "redelegate", "withdraw", "set_withdraw", "withdraw_comm", "fund_pool",
	"authz_grant", "authz_exec", "gov_submit", "gov_deposit", "gov_vote",
	"vest_create", "vest_convert_into", "vest_clawback", "vest_update_funder", "vest_convert_back",
	"lv_liquidate", "lv_redeem", "dao_fund", "dao_xfer", "erc20_convert_coin", "erc20_convert_erc20", "eth_transfer", "eth_probe"}

func (m *mixed) Configure(r *e.RNG, tier string) e.Config {
	c := e.DefaultConfig()
	c.NVals = int(r.Range(1, 4))
	c.NAccts = c.NVals + int(r.Range(2, 4))
	c.NoBaseFee = r.Chance(0.3)
	c.MinGasPrice = []string{"0", "0", "1000", "1000000000"}[r.Intn(4)]
	c.MinGasMult = []string{"0.5", "0", "1", "0.25"}[r.Intn(4)]
	c.Elasticity = uint32(r.Range(1, 4))
	c.ChangeDenom = uint32(r.Range(2, 50))
	c.BlockMaxGas = []int64{-1, -1, 30_000_000, 6_000_000}[r.Intn(4)]
	c.UnbondingSecs = []int64{5, 60, 3600, 1_814_400}[r.Intn(4)]
	c.SlashWindow = r.Range(3, 12)
	c.SlashDowntime = []string{"0.01", "0.0001", "0.5"}[r.Intn(3)]
	c.SlashDoubleSign = []string{"0.05", "0.5", "1"}[r.Intn(3)]
	c.GovVotingSecs = r.Range(5, 60)
	c.BurnVoteQuorum = r.Chance(0.5)
	c.BurnVoteVeto = r.Chance(0.5)
	c.BurnPropDeposit = r.Chance(0.5)
	c.Coinomics = r.Chance(0.6)
	c.RewardCoeff = []string{"7.8", "0.5", "100"}[r.Intn(3)]
	c.LVMinimum = []string{"1000000", "1", "1000000000000000000"}[r.Intn(3)]
	// swarm: roughly half of the op kinds are enabled per run
	for _, op := range mixedOps {
		if r.Chance(0.55) {
			c.Flags["w_"+op] = r.Range(1, 5)
		}
	}
	c.Flags["w_send"] = r.Range(1, 4) // always some traffic
	c.Flags["w_govevm"] = r.Range(0, 3)
	if c.Flags["w_govevm"] > 0 {
		if r.Chance(0.6) {
			c.Flags["genesis_drop_precompile"] = r.Range(1, 2) // p256 or bech32 inactive at genesis
		}
		c.Flags["w_eth_probe"] = r.Range(2, 5)
		c.GovVotingSecs = r.Range(2, 15)
	}
	c.Flags["w_blk"] = r.Range(6, 16)
	c.Flags["p_absent"] = r.Range(0, 30)   // percent of blocks with an absent validator
	c.Flags["p_evidence"] = r.Range(0, 10) // percent of blocks with double-sign evidence
	c.Flags["p_eip712"] = r.Range(0, 30)
	if r.Chance(0.35) {
		c.Flags["byz_basic"] = 1 // byzantine proposer: txs failing stateless validation reach DeliverTx
	}
	switch m.id {
	case "C01":
		c.Replicas = int(r.Range(3, 4))
		prunings := []string{"", "everything", "default", "custom"}
		tracers := []string{"", "json", "struct", "access_list"}
		for i := 0; i < c.Replicas; i++ {
			o := e.ReplicaOpts{}
			if i > 0 { // replica 0 keeps the defaults
				o.MinGasPrices = []string{"", "1aISLM", "100000000000aISLM"}[r.Intn(3)]
				o.MaxTxGasWanted = []uint64{0, 21000, 500000}[r.Intn(3)]
				o.Pruning = prunings[r.Intn(len(prunings))]
				o.IAVLCache = []int{0, 1, 100}[r.Intn(3)]
				o.InvCheckPeriod = []uint{0, 1, 7}[r.Intn(3)]
				o.Tracer = tracers[r.Intn(len(tracers))]
			}
			c.ReplicaOpts = append(c.ReplicaOpts, o)
		}
		c.Flags["w_traffic"] = r.Range(2, 8)
		c.Flags["w_crash"] = r.Range(0, 3)
		c.Flags["w_stall"] = r.Range(0, 2)
		c.Flags["w_join"] = r.Range(0, 1)
		c.Flags["allow_v180"] = 1
	case "C20":
		c.Replicas = 3
		c.Flags["allow_v180"] = 1
		// known finding C20-002 needs a registered token pair; two thirds of the
		// runs cannot create one, so the finding cannot mask other violations there
		// (a quarter of the runs can create pairs but leave the one query of that
		// finding out, so that what happens to token pairs after restarts is still
		// explored to the end of the run)
		switch r.Weighted([]int{50, 25, 25}) {
		case 0:
			c.Flags["w_lv_liquidate"] = 0
		case 2:
			c.Flags["skip_bank_balance_queries"] = 1
			c.Flags["w_lv_liquidate"] = r.Range(3, 6)
			c.Flags["w_erc20_convert_coin"], c.Flags["w_erc20_convert_erc20"] = r.Range(2, 5), r.Range(2, 5)
		}
		c.Flags["w_crash"] = r.Range(2, 6)
		c.Flags["w_traffic"] = r.Range(0, 2)
	case "C15":
		c.Replicas = 1
		// a second denomination in every wallet (it can ride along in gov deposits) and,
		// in a third of the runs, voters that mostly veto, so that deposits are burned
		if r.Chance(0.6) {
			c.ExtraDenoms = []string{"utest"}
		}
		if r.Chance(0.35) {
			c.Flags["veto_bias"] = 1
			c.Flags["w_gov_submit"], c.Flags["w_gov_deposit"], c.Flags["w_gov_vote"] = r.Range(2, 4), r.Range(3, 6), r.Range(4, 8)
			c.GovVotingSecs = r.Range(3, 20)
		}
	}
	return c
}

func (m *mixed) Length(cfg e.Config, tier string) int {
	if tier == "thorough" {
		return 400
	}
	return 110
}

func (m *mixed) Tier(tier string) (uint64, int64) {
	if tier == "thorough" {
		return 1600, 2400
	}
	if m.id == "C15" {
		return 320, 300 // one replica: cheap
	}
	if m.id == "C20" {
		return 192, 300
	}
	return 64, 300
}

func (m *mixed) MandatoryProbes() []string {
	switch m.id {
	case "C01":
		return []string{"replicas_compared_blocks", "nonconsensus_traffic"}
	case "C20":
		return []string{"restart_at_boundary", "restart_mid_block", "query_set_compared"}
	default:
		return []string{"invariants_evaluated"}
	}
}

func (m *mixed) Setup(w *e.World) error {
	if m.id == "C20" {
		// replica 1 ("E") restarts at every block boundary: crash-point enumeration
		// inside the sampled history. Replica 0 ("K") never stops.
		w.OnBoundary = func(w *e.World) *e.Violation {
			v, err := w.Restart(1)
			if err != nil {
				panic(err)
			}
			if v != nil {
				return v
			}
			w.Stats.Probe("restart_at_boundary")
			return compareQuerySets(w, 0, 1)
		}
	}
	return nil
}

func genBlk(w *e.World, r *e.RNG) e.Step {
	f := &e.BlockFaults{Proposer: r.Intn(len(w.Vals))}
	if int64(r.Intn(100)) < w.Cfg.Flag("p_absent") && len(w.Vals) > 1 {
		f.Absent = []int{1 + r.Intn(len(w.Vals)-1)}
		if r.Chance(0.2) {
			f.Absent = append(f.Absent, 0)
		}
	}
	if int64(r.Intn(100)) < w.Cfg.Flag("p_evidence") && w.Height > 2 {
		f.Evidence = []e.EvRec{{Val: r.Intn(len(w.Vals)), Height: r.Range(1, w.Height-1), AgeSec: r.Range(0, 100)}}
	}
	return e.BlkStep(ClockDt(r), f)
}

func (m *mixed) Gen(w *e.World, r *e.RNG) e.Step {
	f := w.Cfg.Flags
	names := append([]string{}, mixedOps...)
	weights := make([]int, 0, len(names)+6)
	for _, n := range names {
		weights = append(weights, int(f["w_"+n]))
	}
	extra := []string{"blk", "traffic", "crash", "stall", "join", "govevm"}
	for _, n := range extra {
		weights = append(weights, int(f["w_"+n]))
	}
	// right after governance touched the EVM parameters, probe what depends on them
	// (fork-gated opcode, precompile addresses), before and after the next restarts
	if h, ok := w.Ext["evm_gov_height"].(int64); ok && w.Height-h <= 12 && r.Chance(0.3) {
		return e.Step{K: "tx", Op: "eth_probe", A: r.Intn(nAcc(w)), B: w.AnyAcct(r), N: []int64{[]int64{2, 2, 0, 1, 3}[r.Intn(5)]}}
	}
	k := r.Weighted(weights)
	if k < len(names) {
		st := Ops[names[k]].Gen(w, r)
		if Ops[names[k]].Msgs != nil && int64(r.Intn(100)) < f["p_eip712"] {
			st.Net = []string{"eip712", "eip712d"}[r.Intn(2)]
		}
		return st
	}
	switch extra[k-len(names)] {
	case "blk":
		return genBlk(w, r)
	case "traffic":
		kinds := []string{"checktx", "checktx_bad", "simulate", "query", "ethcall", "export", "recheck"}
		return e.Step{K: "traffic", Op: kinds[r.Intn(len(kinds))], A: r.Intn(len(w.Reps)), B: r.Intn(nAcc(w)), N: []int64{int64(r.Intn(nAcc(w)))}, S: []string{r.Amount(nil).String()}}
	case "crash":
		if w.Height < 2 {
			return genBlk(w, r)
		}
		i := 1 + r.Intn(len(w.Reps)-1) // replica 0 never stops
		if m.id == "C20" {
			i = 2 // replica 1 restarts at every boundary anyway; replica 2 at random points incl. mid-block
		}
		return e.Step{K: "crash", A: i}
	case "govevm":
		if w.Cfg.Flags["pair_bias"] == 1 && r.Chance(0.5) {
			return e.Step{K: "gov", N: []int64{4, r.Range(0, 7)}} // toggle a token pair
		}
		return e.Step{K: "gov", N: []int64{int64(r.Weighted([]int{4, 2, 3, 1, 2, 3})), r.Range(0, 7)}}
	case "stall":
		if len(w.Reps) < 2 {
			return genBlk(w, r)
		}
		return e.Step{K: "stall", A: 1 + r.Intn(len(w.Reps)-1), N: []int64{r.Range(1, 6)}}
	default:
		if w.Height < 3 || len(w.Reps) >= 6 {
			return genBlk(w, r)
		}
		return e.Step{K: "join"}
	}
}

func (m *mixed) Exec(w *e.World, st *e.Step) *e.Violation {
	switch st.K {
	case "blk":
		// stalled replicas whose stall budget is used up catch up first
		if v := m.catchUps(w); v != nil {
			return v
		}
		w.MustBlk(st)
		if len(w.Reps) > 1 {
			w.Stats.Probe("replicas_compared_blocks")
		}
		if m.id == "C15" {
			return checkInvariants(w)
		}
		if m.id == "C20" {
			// nothing may become durable outside Commit (this is what makes a mid-block
			// crash equivalent to a crash at the previous boundary plus redelivery)
			for _, r := range w.Reps {
				if n, where := r.WritesOutsideCommit(); n > 0 {
					return e.Violatef("durable-outside-commit", "db-write-outside-commit:"+strings.TrimSpace(where), "replica %d wrote %d DB entries in phases %s", r.ID, n, where)
				}
			}
		}
		return nil
	case "tx":
		ExecOp(w, st)
		return nil
	case "gov":
		// EVM parameter change by governance: proposal and votes are txs of this block
		if st.NArg(0) == 5 && w.Cfg.Flags["allow_v180"] == 1 && UpgradeNames[int(st.NArg(1))%len(UpgradeNames)] == "v1.8.0" {
			// v1.8.0 presupposes a DAO holding more than 20 ISLM
			a := w.Acct(len(w.Accts) - 1)
			w.DoCosmos(a, e.TxOpts{}, &ucdaotypes.MsgFund{Amount: e.Native(e.BigS("25000000000000000000")), Depositor: a.Acc.String()})
		}
		if msgs := evmGovMsgs(w, st.NArg(0), st.NArg(1)); msgs != nil {
			w.Ext["evm_gov_height"] = w.Height
			govPass(w, msgs)
			if st.NArg(0) == 5 {
				w.Stats.Fault("software_upgrade_planned")
				// let the voting period end in the next block: the proposal passes in its
				// EndBlock and the upgrade runs in the BeginBlock after it
				blk := e.BlkStep((w.Cfg.GovVotingSecs+1)*1000, nil)
				if v := m.Exec(w, &blk); v != nil {
					return v
				}
				blk2 := e.BlkStep(2000, nil)
				if v := m.Exec(w, &blk2); v != nil {
					return v
				}
				if w.App().UpgradeKeeper.GetDoneHeight(w.Ctx(), UpgradeNames[int(st.NArg(1))%len(UpgradeNames)]) > 0 {
					w.Stats.Probe("software_upgrade_applied_in_process")
				}
			}
		}
		return nil
	case "crash":
		if st.A <= 0 || st.A >= len(w.Reps) {
			return nil
		}
		mid := len(w.BlockTxs) > 0
		v, err := w.Restart(st.A)
		if err != nil {
			panic(err)
		}
		if v != nil {
			return v
		}
		if mid {
			w.Stats.Probe("restart_mid_block")
		}
		return nil
	case "stall":
		if st.A <= 0 || st.A >= len(w.Reps) || w.Reps[st.A].Stalled || !w.KeepLog || w.Height < 2 {
			return nil
		}
		r := w.Reps[st.A]
		// a replica can only be stalled at a boundary in this model: it stops
		// before executing the open block
		if len(w.BlockTxs) > 0 {
			return nil
		}
		// drop the in-memory app too (a stalled node that is restarted later)
		r.Stalled = true
		w.Ext[fmt.Sprintf("stall%d", r.ID)] = w.Height + st.NArg(0)
		// the open block was already begun on this replica: restart discards that
		r.App = nil
		r.App = w.NewAppFor(r)
		w.Stats.Fault("replica_stall")
		return nil
	case "join":
		if !w.KeepLog || len(w.Reps) >= 6 {
			return nil
		}
		o := e.ReplicaOpts{Pruning: "everything", IAVLCache: 1}
		r := w.Join(o)
		v, err := w.CatchUp(r)
		if err != nil {
			panic(err)
		}
		w.Stats.Probe("late_joiner_caught_up")
		return v
	case "traffic":
		return m.traffic(w, st)
	}
	return nil
}

func (m *mixed) catchUps(w *e.World) *e.Violation {
	for _, r := range w.Reps {
		if !r.Stalled {
			continue
		}
		until, _ := w.Ext[fmt.Sprintf("stall%d", r.ID)].(int64)
		if w.Height >= until {
			v, err := w.CatchUp(r)
			if err != nil {
				panic(err)
			}
			w.Stats.Probe("stalled_replica_caught_up")
			if v != nil {
				return v
			}
		}
	}
	return nil
}

// traffic injects non-consensus calls on one replica between consensus calls.
func (m *mixed) traffic(w *e.World, st *e.Step) *e.Violation {
	if st.A < 0 || st.A >= len(w.Reps) || !liveRep(w.Reps[st.A]) {
		return nil
	}
	r := w.Reps[st.A]
	a, b := w.Acct(st.B), w.Acct(int(st.NArg(0)))
	w.Stats.Probe("nonconsensus_traffic")
	w.Stats.Fault("traffic_" + st.Op)
	r.DB.Phase = "traffic"
	switch st.Op {
	case "checktx", "recheck", "simulate":
		bz, err := w.BuildCosmosTx(a, e.TxOpts{}, banktypes.NewMsgSend(a.Acc, b.Acc, e.Native(e.BigS(st.SArg(0)))))
		if err != nil {
			return nil
		}
		if st.Op == "simulate" {
			func() {
				defer func() { recover() }()
				r.App.Simulate(bz)
			}()
		} else {
			w.CheckTx(r, bz, st.Op == "recheck")
		}
	case "checktx_bad":
		// an eth tx with a far-future nonce and a gas limit above max-tx-gas-wanted
		nonce := uint64(1000)
		to := b.Eth
		bz, _, err := w.BuildEthTx(a, e.EthArgs{Type: 2, Nonce: &nonce, To: &to, Value: e.BigS(st.SArg(0)), Gas: 5_000_000})
		if err != nil {
			return nil
		}
		w.CheckTx(r, bz, false)
		// and the same with the right nonce, so CheckTx passes and mutates check state
		bz2, _, err := w.BuildEthTx(a, e.EthArgs{Type: 2, To: &to, Value: e.BigS(st.SArg(0)), Gas: 5_000_000})
		if err == nil {
			w.CheckTx(r, bz2, false)
		}
	case "query":
		if w.Height > 1 {
			querySet(w, r)
		}
	case "ethcall":
		if w.Height > 1 {
			ethCall(w, r, a, b)
		}
	case "export":
		if w.Height > 1 {
			func() {
				defer func() { recover() }()
				r.App.ExportAppStateAndValidators(false, nil, nil)
			}()
		}
	}
	return nil
}

func liveRep(r *e.Replica) bool { return r.App != nil && !r.Stalled }

var queryPaths = []string{
	"/cosmos.bank.v1beta1.Query/TotalSupply",
	"/cosmos.staking.v1beta1.Query/Validators",
	"/cosmos.staking.v1beta1.Query/Pool",
	"/cosmos.distribution.v1beta1.Query/CommunityPool",
	"/cosmos.gov.v1.Query/Proposals",
	"/cosmos.auth.v1beta1.Query/Accounts",
	"/ethermint.evm.v1.Query/Params",
	"/ethermint.feemarket.v1.Query/Params",
	"/ethermint.feemarket.v1.Query/BaseFee",
	"/ethermint.feemarket.v1.Query/BlockGas",
	"/evmos.erc20.v1.Query/TokenPairs",
	"/evmos.erc20.v1.Query/Params",
	"/haqq.coinomics.v1.Query/Params",
	"/haqq.coinomics.v1.Query/MaxSupply",
	"/haqq.liquidvesting.v1.Query/Denoms",
	"/haqq.ucdao.v1.Query/TotalBalance",
	"/haqq.ucdao.v1.Query/Holders",
	"/evmos.epochs.v1.Query/EpochInfos",
}

// querySetMap runs a fixed set of gRPC queries through the ABCI Query interface
// at the last committed height and returns one digest per query.
func querySetMap(w *e.World, r *e.Replica) map[string]string {
	out := map[string]string{}
	r.DB.Phase = "traffic"
	for _, p := range queryPaths {
		res := r.App.Query(abci.RequestQuery{Path: p})
		out[p] = fmt.Sprintf("%d|%x", res.Code, res.Value)
	}
	// per-account queries
	for i := 0; i < len(w.Accts)+e.NExtra; i++ {
		a := w.Acct(i)
		req := &evmtypes.QueryAccountRequest{Address: a.Eth.Hex()}
		bz, _ := req.Marshal()
		res := r.App.Query(abci.RequestQuery{Path: "/ethermint.evm.v1.Query/Account", Data: bz})
		out[fmt.Sprintf("evm-account:%d", i)] = fmt.Sprintf("%d|%x|%s", res.Code, res.Value, trunc(res.Log, 80))
		if w.Cfg.Flags["skip_bank_balance_queries"] == 1 {
			continue
		}
		breq := &banktypes.QueryAllBalancesRequest{Address: a.Acc.String()}
		bz, _ = breq.Marshal()
		res = r.App.Query(abci.RequestQuery{Path: "/cosmos.bank.v1beta1.Query/AllBalances", Data: bz})
		out[fmt.Sprintf("bank-balances:%d", i)] = fmt.Sprintf("%d|%x|%s", res.Code, res.Value, trunc(res.Log, 80))
	}
	return out
}

func querySet(w *e.World, r *e.Replica) string {
	m := querySetMap(w, r)
	h := sha256.New()
	for _, k := range e.SortedKeys(m) {
		fmt.Fprintf(h, "%s=%s\n", k, m[k])
	}
	return hex.EncodeToString(h.Sum(nil)[:10])
}

func ethCall(w *e.World, r *e.Replica, a, b *e.Account) {
	defer func() { recover() }()
	args := fmt.Sprintf(`{"from":"%s","to":"%s","value":"0x1"}`, a.Eth.Hex(), b.Eth.Hex())
	req := &evmtypes.EthCallRequest{Args: []byte(args), GasCap: 1_000_000, ChainId: w.EthChainID().Int64()}
	bz, _ := req.Marshal()
	r.App.Query(abci.RequestQuery{Path: "/ethermint.evm.v1.Query/EthCall", Data: bz})
	r.App.Query(abci.RequestQuery{Path: "/ethermint.evm.v1.Query/EstimateGas", Data: bz})
}

// compareQuerySets: a restarted replica must answer every query like the
// never-stopped one.
func compareQuerySets(w *e.World, i, j int) *e.Violation {
	if !liveRep(w.Reps[i]) || !liveRep(w.Reps[j]) {
		return nil
	}
	w.Stats.Oracle++
	w.Stats.Probe("query_set_compared")
	a, b := querySetMap(w, w.Reps[i]), querySetMap(w, w.Reps[j])
	for _, k := range e.SortedKeys(a) {
		if a[k] != b[k] {
			name := k
			if x := strings.Index(name, ":"); x > 0 {
				name = name[:x]
			}
			return e.Violatef("restart-queries", "query-differs-after-restart:"+name, "height %d: replica %d (restarted) answers %s differently from replica %d (never stopped): %s vs %s", w.Height, j, k, i, trunc(b[k], 150), trunc(a[k], 150))
		}
	}
	return nil
}

// checkInvariants evaluates every invariant route registered with the crisis
// keeper on the state of the block that was just committed (C15).
func checkInvariants(w *e.World) *e.Violation {
	ctx := w.Ctx() // open block H+1 after BeginBlock; evaluate on a context over the committed state instead
	_ = ctx
	cctx := w.CommittedCtx()
	for _, ir := range w.App().CrisisKeeper.Routes() {
		msg, broken, pan := safeInvariant(ir.Invar, cctx)
		if pan != "" {
			// an invariant that cannot even be evaluated (the crisis module would halt the chain on it)
			return e.Violatef("crisis-invariant", "invariant-panics:"+ir.ModuleName+"/"+ir.Route, "after block %d: evaluating the invariant panicked: %s", w.Height-1, trunc(pan, 400))
		}
		w.Stats.Oracle++
		w.Stats.Probe("invariants_evaluated")
		if broken {
			return e.Violatef("crisis-invariant", "invariant-broken:"+ir.ModuleName+"/"+ir.Route+":ops="+lastOps(w), "after block %d: %s", w.Height-1, trunc(msg, 600))
		}
	}
	return nil
}

func safeInvariant(inv sdk.Invariant, ctx sdk.Context) (msg string, broken bool, pan string) {
	defer func() {
		if x := recover(); x != nil {
			pan = fmt.Sprint(x)
		}
	}()
	msg, broken = inv(ctx)
	return msg, broken, ""
}

func trunc(s string, n int) string {
	if len(s) > n {
		return s[:n]
	}
	return s
}

func lastOps(w *e.World) string { return "" }

func (m *mixed) Final(w *e.World) *e.Violation {
	if v := m.finalCatchUp(w); v != nil {
		return v
	}
	// fault-free tail: one plain transfer per account, three blocks
	for i := 0; i < 3; i++ {
		for j := range w.Accts {
			a, b := w.Acct(j), w.Acct((j+1)%len(w.Accts))
			w.DoCosmos(a, e.TxOpts{}, banktypes.NewMsgSend(a.Acc, b.Acc, e.Native(e.BigS("1"))))
		}
		st := e.BlkStep(2000, nil)
		w.MustBlk(&st)
		if m.id == "C15" {
			if v := checkInvariants(w); v != nil {
				return v
			}
		}
	}
	if m.id == "C20" {
		return compareQuerySets(w, 0, 2)
	}
	return nil
}

func (m *mixed) finalCatchUp(w *e.World) *e.Violation {
	for _, r := range w.Reps {
		if r.Stalled {
			v, err := w.CatchUp(r)
			if err != nil {
				panic(err)
			}
			if v != nil {
				return v
			}
		}
	}
	return nil
}

var _ = sdk.AccAddress{}
