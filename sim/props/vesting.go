package props

import (
	"encoding/json"
	"fmt"
	"math/big"
	"strings"

	sdk "github.com/cosmos/cosmos-sdk/types"
	sdkvesting "github.com/cosmos/cosmos-sdk/x/auth/vesting/types"

	e "haqqsim/engine"

	liquidvestingtypes "github.com/haqq-network/haqq/x/liquidvesting/types"
	vestingtypes "github.com/haqq-network/haqq/x/vesting/types"
)

// The vesting profile serves C08 (locked coins cannot leave), C09 (schedule
// arithmetic, clawback) and C11 (liquid vesting). The schedule IS time: the
// clock seam jumps to period boundaries +-1 s; funders create / merge /
// convert / claw back; vesting accounts try every debit path.
type vesting struct{ id string }

func init() {
	register("C08", newC08)
	register("C09", func() e.Profile { return &vesting{"C09"} })
	register("C11", func() e.Profile { return &vesting{"C11"} })
}

func (p *vesting) ID() string { return p.id }

var vestOps = []string{"vest_create", "vest_convert_into", "vest_clawback", "vest_update_funder", "vest_convert_back",
	"lv_liquidate", "lv_redeem", "erc20_convert_coin", "erc20_convert_erc20",
	"send", "delegate", "undelegate", "redelegate", "withdraw", "authz_grant", "authz_exec", "fund_pool", "dao_fund", "eth_transfer", "gov_submit", "gov_deposit", "multi_send", "eth_pc_delegate"}

func (p *vesting) Configure(r *e.RNG, tier string) e.Config {
	c := e.DefaultConfig()
	c.NVals = int(r.Range(1, 3))
	c.NAccts = c.NVals + int(r.Range(2, 4))
	c.NoBaseFee = r.Chance(0.4)
	c.MinGasPrice = []string{"0", "0", "1000"}[r.Intn(3)]
	c.UnbondingSecs = []int64{20, 3600, 1_814_400}[r.Intn(3)]
	c.SlashWindow = r.Range(3, 8)
	c.SlashDowntime = []string{"0.01", "0.5"}[r.Intn(2)]
	c.SlashDoubleSign = []string{"0.05", "0.5"}[r.Intn(2)]
	c.LVMinimum = []string{"1000000", "1", "1000000000000000000"}[r.Intn(3)]
	c.GovVotingSecs = r.Range(5, 60)
	if p.id == "C09" {
		c.ExtraDenoms = []string{"utest"}
		c.Flags["p_second_denom"] = r.Range(0, 50)
	}
	heavy := map[string]int64{}
	switch p.id {
	case "C08":
		heavy = map[string]int64{"vest_create": 5, "vest_convert_into": 5, "vest_clawback": 3, "send": 6, "delegate": 4, "eth_transfer": 4, "authz_exec": 2, "authz_grant": 2}
	case "C09":
		heavy = map[string]int64{"vest_create": 7, "vest_convert_into": 6, "vest_clawback": 5, "vest_update_funder": 2, "vest_convert_back": 1}
	case "C11":
		heavy = map[string]int64{"vest_create": 5, "lv_liquidate": 7, "lv_redeem": 7, "send": 3, "erc20_convert_coin": 2, "erc20_convert_erc20": 2, "vest_convert_into": 2}
	}
	for _, op := range vestOps {
		if h, ok := heavy[op]; ok {
			c.Flags["w_"+op] = h
		} else if r.Chance(0.45) {
			c.Flags["w_"+op] = r.Range(1, 2)
		}
	}
	c.Flags["w_blk"] = r.Range(5, 10)
	c.Flags["w_crash"] = r.Range(0, 1)
	c.Flags["p_absent"] = r.Range(0, 30)
	c.Flags["p_evidence"] = r.Range(0, 8)
	c.Flags["p_edge"] = r.Range(20, 60) // percent of clock steps that jump to a schedule edge
	// Known finding (merge re-anchors a later grant at the earlier start): only a
	// third of the runs may start a merged grant later than the account.
	c.Flags["late_merge"] = 0
	if r.Chance(0.34) {
		c.Flags["late_merge"] = 1
	}
	return c
}

func (p *vesting) Length(cfg e.Config, tier string) int {
	if tier == "thorough" {
		return 300
	}
	return 100
}

func (p *vesting) Tier(tier string) (uint64, int64) {
	if tier == "thorough" {
		return 3000, 2400
	}
	return 192, 300
}

func (p *vesting) MandatoryProbes() []string {
	switch p.id {
	case "C08":
		return []string{"locked_balance_checked", "debit_attempt_by_vesting_account", "vesting_account_delegated"}
	case "C09":
		return []string{"schedule_sweep_compared", "merge_applied", "clawback_checked"}
	default:
		return []string{"liquidate_split_checked", "redeem_checked", "backing_checked"}
	}
}

type vestWorld struct {
	models map[int]*vModel
}

func (p *vesting) Setup(w *e.World) error {
	w.Ext["vest"] = &vestWorld{models: map[int]*vModel{}}
	return nil
}

func vw(w *e.World) *vestWorld { return w.Ext["vest"].(*vestWorld) }

// nextEdge returns the next schedule instant (any vesting account or liquid denom) after now.
func nextEdge(w *e.World) int64 {
	now := w.Now.Unix()
	best := int64(0)
	consider := func(t int64) {
		if t > now && (best == 0 || t < best) {
			best = t
		}
	}
	for _, m := range vw(w).models {
		for _, ev := range m.Vest {
			consider(ev.T)
		}
		for _, tr := range m.Tranches {
			for _, ev := range tr.Lock {
				consider(ev.T)
			}
		}
	}
	return best
}

func (p *vesting) Gen(w *e.World, r *e.RNG) e.Step {
	f := w.Cfg.Flags
	weights := []int{int(f["w_blk"]), int(f["w_crash"])}
	for _, op := range vestOps {
		weights = append(weights, int(f["w_"+op]))
	}
	k := r.Weighted(weights)
	if k == 0 {
		st := genBlk(w, r)
		if int64(r.Intn(100)) < f["p_edge"] {
			if t := nextEdge(w); t > 0 {
				dt := (t-w.Now.Unix())*1000 + []int64{-1000, 0, 1000}[r.Intn(3)]
				if dt > 0 {
					st.Dt = dt
				}
			}
		}
		return st
	}
	if k == 1 {
		if w.Height < 2 {
			return e.BlkStep(1000, nil)
		}
		return e.Step{K: "crash", A: 0}
	}
	op := vestOps[k-2]
	st := Ops[op].Gen(w, r)
	va := vestingAccts(w)
	// vesting accounts are the interesting actors of every debit path
	switch op {
	case "send", "delegate", "fund_pool", "dao_fund", "eth_transfer", "gov_deposit", "gov_submit", "multi_send", "eth_pc_delegate":
		if len(va) > 0 && r.Chance(0.6) {
			st.A = va[r.Intn(len(va))]
			bal := w.Balance(w.Acct(st.A).Acc)
			amt := r.Amount(bal)
			switch op {
			case "dao_fund":
				st.S = []string{e.Denom, amt.String()}
			case "gov_submit":
				st.S = []string{amt.String()}
			case "multi_send":
				st.S = []string{amt.String(), r.Amount(amt).String()}
			default:
				st.S = []string{amt.String()}
			}
		}
	case "authz_exec":
		if len(va) > 0 && r.Chance(0.6) {
			st.B = va[r.Intn(len(va))] // granter is a vesting account
			st.S = []string{r.Amount(w.Balance(w.Acct(st.B).Acc)).String()}
			st.N[0] = int64(r.Intn(2))
		}
	case "authz_grant":
		if len(va) > 0 && r.Chance(0.6) {
			st.A = va[r.Intn(len(va))]
		}
	case "vest_create", "vest_convert_into":
		if p.id == "C11" && r.Chance(0.8) {
			// liquidation needs fully vested coins that are still locked for a while
			var s Sched
			if json.Unmarshal(st.P, &s) == nil {
				s.Vest = nil
				if len(s.Lock) == 0 {
					s.Lock = [][2]string{{"100000", s.Total().String()}}
				}
				for i := range s.Lock {
					l := e.BigS(s.Lock[i][0]).Int64()
					if l < 3600 {
						l = 3600 + l*977
					}
					s.Lock[i][0] = fmt.Sprint(l)
				}
				if s.Start < w.Now.Unix()-50_000 {
					s.Start = w.Now.Unix() - r.Range(0, 50_000)
				}
				st.P, _ = json.Marshal(s)
			}
		}
		if p.id == "C09" && int64(r.Intn(100)) < f["p_second_denom"] {
			var s Sched
			if json.Unmarshal(st.P, &s) == nil {
				s.AddSecondDenom(r, r.Amount(big.NewInt(1_000_000_000)))
				st.P, _ = json.Marshal(s)
			}
		}
		if p.id == "C08" && op == "vest_convert_into" {
			// stake-on-convert into poor accounts, back-dated, lock-up shorter than vesting
			var s Sched
			if json.Unmarshal(st.P, &s) == nil && r.Chance(0.5) {
				s.Stake = true
				if r.Chance(0.6) {
					st.B = nAcc(w) + r.Intn(e.NExtra)
				}
				if r.Chance(0.5) && len(s.Vest) > 0 {
					s.Lock = nil
					s.Start = w.Now.Unix() - r.Range(1, 5000)
				}
				st.P, _ = json.Marshal(s)
			}
		}
		if f["late_merge"] == 0 {
			// keep merged grants from starting later than the account they join
			var s Sched
			if json.Unmarshal(st.P, &s) == nil {
				if m := vw(w).models[st.B]; m != nil && len(m.Starts) > 0 {
					minStart := m.Starts[0]
					for _, x := range m.Starts {
						if x < minStart {
							minStart = x
						}
					}
					if s.Start > minStart {
						s.Start = minStart
						st.P, _ = json.Marshal(s)
					}
				}
			}
		}
	}
	return st
}

// ---------------------------------------------------------------------------

type acctSnap struct {
	bal     *big.Int
	va      *vestingtypes.ClawbackVestingAccount
	tracked *big.Int
}

func snapAll(w *e.World) map[int]acctSnap {
	out := map[int]acctSnap{}
	ctx := w.Ctx()
	for _, i := range allIdx(w) {
		a := w.Acct(i)
		s := acctSnap{bal: w.App().BankKeeper.GetBalance(ctx, a.Acc, e.Denom).Amount.BigInt(), tracked: new(big.Int)}
		if va, ok := w.App().AccountKeeper.GetAccount(ctx, a.Acc).(*vestingtypes.ClawbackVestingAccount); ok {
			s.va = va
			s.tracked = va.DelegatedFree.Add(va.DelegatedVesting...).AmountOf(e.Denom).BigInt()
		}
		out[i] = s
	}
	return out
}

func (p *vesting) Exec(w *e.World, st *e.Step) *e.Violation {
	if st.K == "blk" {
		w.MustBlk(st)
		if p.id == "C08" {
			w.Stats.Probe("locked_balance_checked")
		}
		if p.id == "C11" {
			return backingCheck(w)
		}
		return nil
	}
	if st.K == "crash" {
		v, _ := ExecCommon(w, st)
		return v
	}
	if st.K != "tx" {
		return nil
	}
	vm := vw(w)
	now := w.Now.Unix()
	pre := snapAll(w)
	var preDenoms []liquidvestingtypes.Denom
	if st.Op == "lv_liquidate" || st.Op == "lv_redeem" {
		preDenoms = w.App().LiquidVestingKeeper.GetAllDenoms(w.Ctx())
	}
	price := w.GasPriceNow()
	gasDeclared := w.DefaultGas()
	if st.Op == "lv_liquidate" {
		gasDeclared = 9_000_000
		if mg := w.Cfg.BlockMaxGas; mg > 0 && int64(gasDeclared) > mg {
			gasDeclared = uint64(mg)
		}
	}
	fee := new(big.Int).Mul(price, new(big.Int).SetUint64(gasDeclared))
	res, ok := ExecOp(w, st)
	if !ok {
		return nil
	}
	post := snapAll(w)
	okTx := res.Code == 0
	signer := st.A
	var sched Sched
	if st.P != nil {
		json.Unmarshal(st.P, &sched)
	}
	// ---- model transitions and per-operation oracles
	delegator := -1 // account whose tx was a delegation (exempt from the balance clause)
	switch st.Op {
	case "delegate":
		delegator = st.A
	case "authz_exec":
		if st.NArg(0) == 1 {
			delegator = st.B
		}
	case "vest_convert_into":
		if sched.Stake {
			delegator = st.B
		}
	}
	if okTx {
		switch st.Op {
		case "vest_create", "vest_convert_into":
			m := vm.models[st.B]
			if m == nil {
				m = &vModel{Funder: w.Acct(st.A).Acc.String()}
				vm.models[st.B] = m
			} else {
				w.Stats.Probe("merge_applied")
				later := false
				for _, s := range m.Starts {
					if sched.Start > s {
						later = true
					}
				}
				if later {
					w.Stats.Probe("merge_of_later_starting_grant")
				}
				if m.Funder != w.Acct(st.A).Acc.String() {
					return e.Violatef("vesting-funder", "grant-merged-by-non-funder", "acct %d merged a grant into acct %d whose funder is %s", st.A, st.B, m.Funder)
				}
			}
			m.AddGrant(sched)
		case "vest_clawback":
			m := vm.models[st.B]
			if m != nil {
				if m.Funder != w.Acct(signer).Acc.String() {
					return e.Violatef("vesting-funder", "clawback-by-non-funder-succeeded", "acct %d clawed back acct %d whose recorded funder is %s", signer, st.B, m.Funder)
				}
				dest := signer
				if st.NArg(1) == 1 {
					dest = int(st.NArg(0))
				}
				got := sub(post[dest].bal, pre[dest].bal)
				if dest == signer {
					got.Add(got, fee)
				}
				if st.B != signer && dest != st.B {
					// What the vesting account lost is the clawed-back amount. The
					// destination's own balance may move for other reasons in the same tx
					// (a signer short of coins pays the fee out of staking rewards it claims),
					// so it only has to have received at least that much.
					lost := sub(pre[st.B].bal, post[st.B].bal)
					if got.Cmp(lost) < 0 {
						return e.Violatef("vesting-clawback", "clawback-not-received-by-destination", "clawback of acct %d at %d: the account lost %s, destination acct %d gained only %s", st.B, now, lost, dest, got)
					}
					got = lost
				}
				// the one open corner: a zero-length period read exactly at its grant's start.
				// It can be open in any denomination; the stored account tells which reading
				// the chain took (it must be the same for every denomination).
				incl := false
				corner := false
				for _, d := range vestDenoms {
					if m.UnvestedInclD(now, d).Cmp(m.UnvestedD(now, d)) != 0 {
						corner = true
					}
				}
				if corner && post[st.B].va != nil {
					incl = true
					for _, d := range vestDenoms {
						if post[st.B].va.OriginalVesting.AmountOf(d).BigInt().Cmp(new(big.Int).Sub(m.OriginalD(d), m.UnvestedInclD(now, d))) != 0 {
							incl = false
						}
					}
				}
				want := m.Clawback(now, incl)
				if dest == st.B {
					got = new(big.Int).Set(want) // destination is the vesting account itself: nothing observable moves
				}
				w.Stats.Probe("clawback_checked")
				if want.Sign() > 0 {
					w.Stats.Probe("clawback_moved_coins")
				}
				if p.id == "C09" && dest != st.B {
					_ = dest
				}
				if got.Cmp(want) != 0 {
					return e.Violatef("vesting-clawback", "clawback-amount-wrong", "clawback of acct %d at %d: destination acct %d received %s, reference unvested amount %s", st.B, now, dest, got, want)
				}
			}
		case "vest_update_funder":
			if m := vm.models[st.B]; m != nil {
				if m.Funder != w.Acct(signer).Acc.String() {
					return e.Violatef("vesting-funder", "funder-updated-by-non-funder", "acct %d changed the funder of acct %d (recorded funder %s)", signer, st.B, m.Funder)
				}
				m.Funder = w.Acct(int(st.NArg(0))).Acc.String()
			}
		case "vest_convert_back":
			if m := vm.models[st.A]; m != nil {
				// (the open corner again: a zero-length vesting period read exactly at its
				// grant's start may count as vested — the inclusive reading decides)
				if m.UnvestedIncl(now).Sign() != 0 || m.inclAt().Unlocked(now).Cmp(m.Original()) < 0 {
					return e.Violatef("vesting-arithmetic", "converted-back-with-locked-or-unvested-coins", "acct %d at %d: reference unvested %s, unlocked %s of %s", st.A, now, m.Unvested(now), m.Unlocked(now), m.Original())
				}
				delete(vm.models, st.A)
			}
		case "lv_liquidate":
			if v := liquidateCheck(w, st, pre, post, preDenoms); v != nil {
				return v
			}
			if post[st.A].va != nil && vm.models[st.A] != nil {
				f := vm.models[st.A].Funder
				vm.models[st.A] = modelFromAccount(post[st.A].va)
				vm.models[st.A].Funder = f
			}
		case "lv_redeem":
			if v := redeemCheck(w, st, pre, post, preDenoms, fee); v != nil {
				return v
			}
			if post[st.B].va != nil {
				vm.models[st.B] = modelFromAccount(post[st.B].va)
			}
		}
	}
	// ---- the model and the chain must agree on which accounts are vesting accounts
	for _, i := range allIdx(w) {
		if (post[i].va != nil) != (vm.models[i] != nil) {
			if post[i].va != nil {
				vm.models[i] = modelFromAccount(post[i].va) // created through a path that is re-synchronised
			} else {
				delete(vm.models, i)
			}
		}
	}
	// ---- C09: stored account vs reference, swept over read time
	if p.id == "C09" && okTx && strings.HasPrefix(st.Op, "vest_") {
		for _, i := range allIdx(w) {
			if m := vm.models[i]; m != nil && post[i].va != nil {
				w.Stats.Probe("schedule_sweep_compared")
				if v := compareAccount(w, i, post[i].va, m); v != nil {
					return v
				}
				if m.Funder != post[i].va.FunderAddress {
					return e.Violatef("vesting-funder", "recorded-funder-differs", "acct %d: stored funder %s, reference %s", i, post[i].va.FunderAddress, m.Funder)
				}
			}
		}
	}
	// ---- C08
	if p.id == "C08" {
		if delegator >= 0 && okTx && pre[delegator].va != nil && vm.models[delegator] != nil {
			w.Stats.Probe("vesting_account_delegated")
			// unvested coins cannot be delegated: whatever was delegated (and paid as fee),
			// the unvested coins must still be in the account afterwards
			m := vm.models[delegator]
			unv := m.inclAt().Unvested(now)
			if post[delegator].bal.Cmp(unv) < 0 {
				return e.Violatef("vesting-locked", "unvested-coins-delegated:"+st.Op, "acct %d delegated at %d: balance %s -> %s, but %s are still unvested", delegator, now, pre[delegator].bal, post[delegator].bal, unv)
			}
		}
		if okTx {
			if pre[signer].va != nil && post[signer].bal.Cmp(pre[signer].bal) < 0 {
				w.Stats.Probe("debit_attempt_by_vesting_account")
				w.Stats.State("debit:" + st.Op)
			}
			return p.lockedCheck(w, pre, post, delegator, st.Op)
		}
	}
	if p.id == "C11" && okTx {
		return backingCheck(w)
	}
	return nil
}

// lockedCheck: after any successful tx other than a delegation by X, X still
// holds at least the reference locked amount.
func (p *vesting) lockedCheck(w *e.World, pre, snap map[int]acctSnap, exempt int, what string) *e.Violation {
	now := w.Now.Unix()
	for _, i := range allIdx(w) {
		m := vw(w).models[i]
		if m == nil || snap[i].va == nil || i == exempt {
			continue
		}
		// the property is about coins LEAVING: only a tx that debited the account is judged
		// (slashing followed by a re-computation of the tracked delegation can raise the
		// locked amount above the balance without any coin moving)
		if snap[i].bal.Cmp(pre[i].bal) >= 0 {
			continue
		}
		w.Stats.Oracle++
		w.Stats.Probe("locked_balance_checked")
		locked := m.Locked(now, snap[i].tracked)
		if locked.Sign() > 0 {
			w.Stats.Probe("locked_amount_positive")
		}
		if snap[i].bal.Cmp(locked) < 0 {
			return e.Violatef("vesting-locked", "balance-below-locked-amount:after="+what, "acct %d at %d after %s: balance %s < locked %s (original %s, vested %s, unlocked %s, tracked delegation %s)", i, now, what, snap[i].bal, locked, m.Original(), m.Vested(now), m.Unlocked(now), snap[i].tracked)
		}
	}
	return nil
}

// ---------------------------------------------------------------------------
// C11

func periodEvents(start int64, ps sdkvesting.Periods) []vEv {
	var out []vEv
	t := start
	for _, p := range ps {
		t += p.Length
		out = append(out, vEv{T: t, S: start, A: p.Amount.AmountOf(e.Denom).BigInt()})
	}
	return out
}

func liquidateCheck(w *e.World, st *e.Step, pre, post map[int]acctSnap, preDenoms []liquidvestingtypes.Denom) *e.Violation {
	now := w.Now.Unix()
	a := st.A
	if pre[a].va == nil || post[a].va == nil {
		return e.Violatef("liquid-split", "liquidate-from-non-vesting-account", "acct %d", a)
	}
	amt := e.BigS(st.SArg(0))
	before := periodEvents(pre[a].va.StartTime.Unix(), pre[a].va.LockupPeriods)
	after := periodEvents(post[a].va.StartTime.Unix(), post[a].va.LockupPeriods)
	// the new denom
	known := map[string]bool{}
	for _, d := range preDenoms {
		known[d.BaseDenom] = true
	}
	var nd *liquidvestingtypes.Denom
	for _, d := range w.App().LiquidVestingKeeper.GetAllDenoms(w.Ctx()) {
		if !known[d.BaseDenom] {
			x := d
			nd = &x
		}
	}
	w.Stats.Oracle++
	w.Stats.Probe("liquidate_split_checked")
	if nd == nil {
		return e.Violatef("liquid-split", "no-liquid-denom-created", "liquidate of %s by acct %d", amt, a)
	}
	moved := periodEvents(nd.StartTime.Unix(), nd.LockupPeriods)
	for i := range moved {
		moved[i].A = new(big.Int)
		for _, c := range nd.LockupPeriods[i].Amount {
			moved[i].A.Add(moved[i].A, c.Amount.BigInt())
		}
	}
	if len(before) != len(after) {
		return e.Violatef("liquid-split", "period-count-changed", "acct %d: %d lock-up periods before, %d after", a, len(before), len(after))
	}
	mi := 0
	total := new(big.Int)
	for i := range before {
		if before[i].T != after[i].T {
			return e.Violatef("liquid-split", "period-time-changed", "acct %d period %d: %d -> %d", a, i, before[i].T, after[i].T)
		}
		if before[i].T <= now {
			if before[i].A.Cmp(after[i].A) != 0 {
				return e.Violatef("liquid-split", "past-period-touched", "acct %d period %d (ended %d <= now %d): %s -> %s", a, i, before[i].T, now, before[i].A, after[i].A)
			}
			continue
		}
		if mi >= len(moved) {
			return e.Violatef("liquid-split", "liquid-schedule-too-short", "acct %d: liquid denom has %d periods, fewer than the upcoming ones", a, len(moved))
		}
		if moved[mi].T != before[i].T {
			rel := "later"
			if moved[mi].T < before[i].T {
				rel = "earlier"
			}
			return e.Violatef("liquid-split", "liquid-period-time-differs:"+rel, "acct %d period %d unlocks at %d, liquid token period at %d", a, i, before[i].T, moved[mi].T)
		}
		sum := new(big.Int).Add(after[i].A, moved[mi].A)
		if sum.Cmp(before[i].A) != 0 || after[i].A.Sign() < 0 || moved[mi].A.Sign() < 0 {
			return e.Violatef("liquid-split", "period-split-not-exact", "acct %d period %d: left %s + moved %s != original %s", a, i, after[i].A, moved[mi].A, before[i].A)
		}
		total.Add(total, moved[mi].A)
		mi++
	}
	if mi != len(moved) {
		return e.Violatef("liquid-split", "liquid-schedule-too-long", "liquid denom has %d periods, %d upcoming", len(moved), mi)
	}
	if total.Cmp(amt) != 0 {
		return e.Violatef("liquid-split", "moved-total-differs-from-amount", "requested %s, moved %s", amt, total)
	}
	w.Stats.State(fmt.Sprintf("liquidate:periods=%d,upcoming=%d", len(before), len(moved)))
	return nil
}

func denomByName(ds []liquidvestingtypes.Denom, name string) *liquidvestingtypes.Denom {
	for i := range ds {
		if ds[i].BaseDenom == name {
			return &ds[i]
		}
	}
	return nil
}

func redeemCheck(w *e.World, st *e.Step, pre, post map[int]acctSnap, preDenoms []liquidvestingtypes.Denom, fee *big.Int) *e.Violation {
	now := w.Now.Unix()
	r := e.BigS(st.SArg(1))
	T := st.B
	D := denomByName(preDenoms, st.SArg(0))
	w.Stats.Oracle++
	w.Stats.Probe("redeem_checked")
	if D == nil {
		return e.Violatef("liquid-redeem", "redeem-of-unknown-denom-succeeded", "%s", st.SArg(0))
	}
	got := sub(post[T].bal, pre[T].bal)
	if T == st.A {
		got.Add(got, fee)
	}
	if got.Cmp(r) != 0 {
		return e.Violatef("liquid-redeem", "redeem-amount-wrong", "redeem of %s %s to acct %d: received %s", r, st.SArg(0), T, got)
	}
	// the denom's own schedule, evaluated independently
	dEvents := periodEvents(D.StartTime.Unix(), D.LockupPeriods)
	for i := range dEvents {
		dEvents[i].A = new(big.Int)
		for _, c := range D.LockupPeriods[i].Amount {
			dEvents[i].A.Add(dEvents[i].A, c.Amount.BigInt())
		}
	}
	totalD := sumAll(dEvents)
	if totalD.Sign() == 0 {
		return nil
	}
	lockedUp := func(va *vestingtypes.ClawbackVestingAccount, t int64) *big.Int {
		if va == nil {
			return new(big.Int)
		}
		m := modelFromAccount(va)
		return new(big.Int).Sub(m.Original(), m.Unlocked(t))
	}
	times := map[int64]bool{now: true, now + 1: true}
	for _, ev := range dEvents {
		if ev.T >= now {
			times[ev.T-1], times[ev.T], times[ev.T+1] = true, true, true
		}
	}
	if post[T].va != nil {
		for _, ev := range periodEvents(post[T].va.StartTime.Unix(), post[T].va.LockupPeriods) {
			if ev.T >= now {
				times[ev.T-1], times[ev.T] = true, true
			}
		}
	}
	for t := range times {
		if t < now {
			continue
		}
		// the open corner: a zero-length period read exactly at its account's start
		// counts before a merge moved the start and not after; skip that instant
		if (pre[T].va != nil && t == pre[T].va.StartTime.Unix()) || (post[T].va != nil && t == post[T].va.StartTime.Unix()) {
			continue
		}
		gain := sub(lockedUp(post[T].va, t), lockedUp(pre[T].va, t))
		unlockedD := new(big.Int)
		for _, ev := range dEvents {
			if t >= ev.T {
				unlockedD.Add(unlockedD, ev.A)
			}
		}
		// gain >= r - r*unlockedD/totalD   <=>   gain*totalD >= r*(totalD-unlockedD)
		lhs := new(big.Int).Mul(gain, totalD)
		rhs := new(big.Int).Mul(r, new(big.Int).Sub(totalD, unlockedD))
		if lhs.Cmp(rhs) < 0 {
			kind := "plain-or-new"
			if pre[T].va != nil {
				kind = "existing-vesting-account"
			}
			return e.Violatef("liquid-redeem", "redeemed-coins-unlock-early:"+kind, "redeem of %s %s to acct %d at %d: at read time %d the account's locked-up amount grew by %s, but %s of the liquid token's %s are still locked then (share of the redeemed amount still locked: %s/%s)", r, st.SArg(0), T, now, t, gain, new(big.Int).Sub(totalD, unlockedD), totalD, rhs, totalD)
		}
	}
	if pre[T].va != nil {
		w.Stats.Probe("redeem_into_existing_vesting_account")
	}
	return nil
}

// backingCheck: every liquid token is backed one-for-one by native coins held
// by the module; every recorded schedule sums to its supply.
func backingCheck(w *e.World) *e.Violation {
	ctx := w.Ctx()
	a := w.App()
	w.Stats.Oracle++
	w.Stats.Probe("backing_checked")
	mod := a.BankKeeper.GetBalance(ctx, e.ModuleAddr(liquidvestingtypes.ModuleName), e.Denom).Amount.BigInt()
	sumSupply := new(big.Int)
	for _, d := range a.LiquidVestingKeeper.GetAllDenoms(ctx) {
		sup := a.BankKeeper.GetSupply(ctx, d.BaseDenom).Amount.BigInt()
		sumSupply.Add(sumSupply, sup)
		ps := new(big.Int)
		for _, p := range d.LockupPeriods {
			for _, c := range p.Amount {
				ps.Add(ps, c.Amount.BigInt())
			}
		}
		if ps.Cmp(sup) != 0 {
			return e.Violatef("liquid-backing", "denom-schedule-differs-from-supply", "%s: periods sum %s, supply %s", d.BaseDenom, ps, sup)
		}
	}
	if mod.Cmp(sumSupply) != 0 {
		return e.Violatef("liquid-backing", "module-balance-differs-from-liquid-supply", "module holds %s aISLM, liquid tokens in circulation %s", mod, sumSupply)
	}
	if sumSupply.Sign() > 0 {
		w.Stats.Probe("liquid_supply_positive")
	}
	return nil
}

func (p *vesting) Final(w *e.World) *e.Violation {
	for i := 0; i < 2; i++ {
		st := e.BlkStep(2000, nil)
		if v := p.Exec(w, &st); v != nil {
			return v
		}
	}
	return nil
}

var _ = sdk.Coins{}
