package props

import (
	"fmt"
	"math/big"
	"sort"
	"time"

	sdk "github.com/cosmos/cosmos-sdk/types"
	sdkvesting "github.com/cosmos/cosmos-sdk/x/auth/vesting/types"

	e "haqqsim/engine"

	vestingtypes "github.com/haqq-network/haqq/x/vesting/types"
)

// Reference model of clawback vesting accounts (native denom). It is a list
// of independent release events in absolute time; evaluation is a plain sum.
// Nothing here calls the implementation's schedule functions.

type vEv struct {
	T int64    // absolute release time
	S int64    // start of the grant the event belongs to
	A *big.Int // amount
}

// released: an event counts at read time t when its period has ended (t >= T)
// and the grant has started (t > S): "zero up to the start".
func (ev vEv) released(t int64) bool { return t >= ev.T && t > ev.S }

type vTranche struct {
	Lock []vEv
	Cap  *big.Int // clawback cap on this tranche's unlocked amount (nil: none)
}

type vModel struct {
	Funder   string
	Tranches []vTranche
	Vest     []vEv
	Starts   []int64 // starts of all grants ever merged
}

func sumReleased(evs []vEv, t int64) *big.Int {
	s := new(big.Int)
	for _, ev := range evs {
		if ev.released(t) {
			s.Add(s, ev.A)
		}
	}
	return s
}

func sumAll(evs []vEv) *big.Int {
	s := new(big.Int)
	for _, ev := range evs {
		s.Add(s, ev.A)
	}
	return s
}

func (m *vModel) Original() *big.Int { return sumAll(m.Vest) }
func (m *vModel) Vested(t int64) *big.Int { return sumReleased(m.Vest, t) }
func (m *vModel) Unvested(t int64) *big.Int {
	return new(big.Int).Sub(m.Original(), m.Vested(t))
}
func (m *vModel) Unlocked(t int64) *big.Int {
	s := new(big.Int)
	for _, tr := range m.Tranches {
		x := sumReleased(tr.Lock, t)
		if tr.Cap != nil && x.Cmp(tr.Cap) > 0 {
			x = tr.Cap
		}
		s.Add(s, x)
	}
	return s
}
func minBig(a, b *big.Int) *big.Int {
	if a.Cmp(b) < 0 {
		return a
	}
	return b
}
func (m *vModel) UnlockedVested(t int64) *big.Int { return minBig(m.Unlocked(t), m.Vested(t)) }

// inclAt returns the model under the permissive reading of the one open
// corner: events of zero-length periods count already at their grant's start.
func (m *vModel) inclAt() *vModel {
	c := &vModel{Funder: m.Funder, Starts: m.Starts}
	relax := func(evs []vEv) []vEv {
		out := make([]vEv, len(evs))
		for i, ev := range evs {
			out[i] = ev
			if ev.T == ev.S {
				out[i].S = ev.S - 1
			}
		}
		return out
	}
	c.Vest = relax(m.Vest)
	for _, tr := range m.Tranches {
		c.Tranches = append(c.Tranches, vTranche{Lock: relax(tr.Lock), Cap: tr.Cap})
	}
	return c
}

// Locked is the statement's max(original - unlockedVested - trackedDelegated,
// unvested), under the reading of the open corner that locks least (the check
// that uses it is one-sided).
func (m *vModel) Locked(t int64, trackedDelegated *big.Int) *big.Int {
	m = m.inclAt()
	a := new(big.Int).Sub(m.Original(), m.UnlockedVested(t))
	a.Sub(a, trackedDelegated)
	u := m.Unvested(t)
	if a.Cmp(u) < 0 {
		return u
	}
	return a
}

func eventsOf(start int64, periods [][2]string, total *big.Int) []vEv {
	var out []vEv
	t := start
	if len(periods) == 0 {
		// absent schedule defaults to "everything at the start"
		if total.Sign() > 0 {
			out = append(out, vEv{T: start, S: start, A: new(big.Int).Set(total)})
		}
		return out
	}
	for _, p := range periods {
		t += e.BigS(p[0]).Int64()
		out = append(out, vEv{T: t, S: start, A: e.BigS(p[1])})
	}
	return out
}

// AddGrant merges a grant: the union of both schedules' release events.
func (m *vModel) AddGrant(s Sched) {
	total := s.Total()
	tr := vTranche{Lock: eventsOf(s.Start, s.Lock, total)}
	m.Tranches = append(m.Tranches, tr)
	m.Vest = append(m.Vest, eventsOf(s.Start, s.Vest, total)...)
	m.Starts = append(m.Starts, s.Start)
}

// UnvestedIncl is Unvested under the other reading of the one instant the
// statement leaves open: an event whose period ends exactly at its grant's start
// (zero-length period) read exactly at that start counts as released.
func (m *vModel) UnvestedIncl(t int64) *big.Int {
	s := new(big.Int)
	for _, ev := range m.Vest {
		if t >= ev.T {
			s.Add(s, ev.A)
		}
	}
	return new(big.Int).Sub(m.Original(), s)
}

// Clawback at time c: future vesting events are removed; everything vested
// stays, still subject to its lock-up (capped at the vested total). incl
// selects the reading of the open corner (see UnvestedIncl).
func (m *vModel) Clawback(c int64, incl bool) *big.Int {
	unv := m.Unvested(c)
	if incl {
		unv = m.UnvestedIncl(c)
	}
	var keep []vEv
	for _, ev := range m.Vest {
		if ev.released(c) || (incl && c >= ev.T) {
			keep = append(keep, ev)
		}
	}
	m.Vest = keep
	// collapse the tranches: the cap applies to the account's merged lock-up
	var all []vEv
	capSum := sumAll(keep)
	for _, tr := range m.Tranches {
		if tr.Cap == nil {
			all = append(all, tr.Lock...)
			continue
		}
		// an already capped tranche contributes min(lock, cap): express it as events
		all = append(all, cappedEvents(tr)...)
	}
	m.Tranches = []vTranche{{Lock: all, Cap: capSum}}
	return unv
}

// cappedEvents rewrites a capped tranche as plain events releasing min(lock(t), cap).
func cappedEvents(tr vTranche) []vEv {
	evs := append([]vEv{}, tr.Lock...)
	sort.SliceStable(evs, func(i, j int) bool { return evs[i].T < evs[j].T })
	var out []vEv
	run := new(big.Int)
	for _, ev := range evs {
		room := new(big.Int).Sub(tr.Cap, run)
		if room.Sign() <= 0 {
			break
		}
		a := minBig(ev.A, room)
		out = append(out, vEv{T: ev.T, S: ev.S, A: new(big.Int).Set(a)})
		run.Add(run, a)
	}
	return out
}

// SweepTimes returns the read times at which stored account and reference are
// compared: every event instant -1/0/+1, the block time, the far future. Times
// at which the statement leaves the value open (t equal to a grant's own start
// while that grant has an event at its start) are left out.
func (m *vModel) SweepTimes(now int64) []int64 {
	set := map[int64]bool{now: true, now + 1: true, 1 << 40: true}
	add := func(evs []vEv) {
		for _, ev := range evs {
			set[ev.T-1], set[ev.T], set[ev.T+1] = true, true, true
		}
	}
	add(m.Vest)
	for _, tr := range m.Tranches {
		add(tr.Lock)
	}
	var maxStart int64
	for _, s := range m.Starts {
		if s > maxStart {
			maxStart = s
		}
		delete(set, s) // corner: zero-length first period read exactly at the grant's start
	}
	var out []int64
	for t := range set {
		// "at every instant after both have started"
		if t > maxStart {
			out = append(out, t)
		}
	}
	sort.Slice(out, func(i, j int) bool { return out[i] < out[j] })
	return out
}

// modelFromAccount re-synchronises the model with a stored account (used
// after operations whose split rule the statement does not fix: liquidate,
// redeem). The stored lists are turned into absolute events; no schedule
// function of the implementation is called.
func modelFromAccount(va *vestingtypes.ClawbackVestingAccount) *vModel {
	start := va.StartTime.Unix()
	m := &vModel{Funder: va.FunderAddress, Starts: []int64{start}}
	conv := func(ps sdkvesting.Periods) []vEv {
		var out []vEv
		t := start
		for _, p := range ps {
			t += p.Length
			out = append(out, vEv{T: t, S: start, A: p.Amount.AmountOf(e.Denom).BigInt()})
		}
		return out
	}
	m.Tranches = []vTranche{{Lock: conv(va.LockupPeriods)}}
	m.Vest = conv(va.VestingPeriods)
	return m
}

// compareAccount checks the stored account against the reference at every
// swept read time (C09) and returns the first mismatch.
func compareAccount(w *e.World, idx int, va *vestingtypes.ClawbackVestingAccount, m *vModel) *e.Violation {
	now := w.Now.Unix()
	orig := va.OriginalVesting.AmountOf(e.Denom).BigInt()
	if orig.Cmp(m.Original()) != 0 {
		return e.Violatef("vesting-arithmetic", "original-vesting-wrong", "acct %d: stored original vesting %s, reference %s", idx, orig, m.Original())
	}
	var prevV, prevU *big.Int
	for _, t := range m.SweepTimes(now) {
		tt := time.Unix(t, 0)
		v := va.GetVestedCoins(tt).AmountOf(e.Denom).BigInt()
		u := va.GetUnlockedCoins(tt).AmountOf(e.Denom).BigInt()
		unv := va.GetVestingCoins(tt).AmountOf(e.Denom).BigInt()
		lockedUp := va.GetLockedUpCoins(tt).AmountOf(e.Denom).BigInt()
		rv, ru := m.Vested(t), m.Unlocked(t)
		w.Stats.Oracle++
		if v.Cmp(rv) != 0 {
			return e.Violatef("vesting-arithmetic", "vested-amount-differs-from-reference", "acct %d at read time %d (block time %d): stored account says vested %s, reference (sum of periods ended by t) %s", idx, t, now, v, rv)
		}
		if u.Cmp(ru) != 0 {
			rel := "later"
			if u.Cmp(ru) > 0 {
				rel = "earlier"
			}
			return e.Violatef("vesting-arithmetic", "unlocked-amount-differs-from-reference:"+rel, "acct %d at read time %d (block time %d): stored account says unlocked %s, reference %s (original %s)", idx, t, now, u, ru, orig)
		}
		if new(big.Int).Add(v, unv).Cmp(orig) != 0 || new(big.Int).Add(u, lockedUp).Cmp(orig) != 0 {
			return e.Violatef("vesting-arithmetic", "parts-do-not-sum-to-original", "acct %d at %d: vested %s + unvested %s, unlocked %s + locked %s, original %s", idx, t, v, unv, u, lockedUp, orig)
		}
		if v.Sign() < 0 || u.Sign() < 0 || unv.Sign() < 0 || lockedUp.Sign() < 0 {
			return e.Violatef("vesting-arithmetic", "negative-amount", "acct %d at %d", idx, t)
		}
		if prevV != nil && (v.Cmp(prevV) < 0 || u.Cmp(prevU) < 0) {
			return e.Violatef("vesting-arithmetic", "schedule-not-monotone", "acct %d at %d: vested %s (before %s), unlocked %s (before %s)", idx, t, v, prevV, u, prevU)
		}
		prevV, prevU = v, u
	}
	if orig.Sign() > 0 {
		if err := va.Validate(); err != nil {
			return e.Violatef("vesting-arithmetic", "stored-account-invalid", "acct %d: %v", idx, err)
		}
	}
	return nil
}

func fmtEvents(evs []vEv) string {
	s := ""
	for _, ev := range evs {
		s += fmt.Sprintf("(%d:%s)", ev.T, ev.A)
	}
	return s
}

var _ = sdk.Coins{}
