package props

import (
	"fmt"
	"math/big"
	"sort"
	"time"

	sdk "github.com/cosmos/cosmos-sdk/types"
	sdkvesting "github.com/cosmos/cosmos-sdk/x/auth/vesting/types"

	e "haqqsim/engine"

	vestingtypes "github.com/haqq-network/haqq/x/vesting/types"
)

// Reference model of clawback vesting accounts (native denom). It is a list
// of independent release events in absolute time; evaluation is a plain sum.
// Nothing here calls the implementation's schedule functions.

type vEv struct {
	T int64    // absolute release time
	S int64    // start of the grant the event belongs to
	A *big.Int // amount
	D string   // denomination ("" = native)
}

func (ev vEv) denom() string {
	if ev.D == "" {
		return e.Denom
	}
	return ev.D
}

// vestDenoms are the denominations schedules are generated in.
var vestDenoms = []string{e.Denom, "utest"}

// released: an event counts at read time t when its period has ended (t >= T)
// and the grant has started (t > S): "zero up to the start".
func (ev vEv) released(t int64) bool { return t >= ev.T && t > ev.S }

type vTranche struct {
	Lock []vEv
	Cap  map[string]*big.Int // clawback cap on this tranche's unlocked amount per denom (nil: none)
}

type vModel struct {
	Funder   string
	Tranches []vTranche
	Vest     []vEv
	Starts   []int64 // starts of all grants ever merged
}

func sumReleasedD(evs []vEv, t int64, d string) *big.Int {
	s := new(big.Int)
	for _, ev := range evs {
		if ev.denom() == d && ev.released(t) {
			s.Add(s, ev.A)
		}
	}
	return s
}

func sumAllD(evs []vEv, d string) *big.Int {
	s := new(big.Int)
	for _, ev := range evs {
		if ev.denom() == d {
			s.Add(s, ev.A)
		}
	}
	return s
}

func sumAll(evs []vEv) *big.Int { return sumAllD(evs, e.Denom) }

func (m *vModel) OriginalD(d string) *big.Int        { return sumAllD(m.Vest, d) }
func (m *vModel) VestedD(t int64, d string) *big.Int { return sumReleasedD(m.Vest, t, d) }
func (m *vModel) UnvestedD(t int64, d string) *big.Int {
	return new(big.Int).Sub(m.OriginalD(d), m.VestedD(t, d))
}
func (m *vModel) UnlockedD(t int64, d string) *big.Int {
	s := new(big.Int)
	for _, tr := range m.Tranches {
		x := sumReleasedD(tr.Lock, t, d)
		if tr.Cap != nil && x.Cmp(get(tr.Cap, d)) > 0 {
			x = get(tr.Cap, d)
		}
		s.Add(s, x)
	}
	return s
}

// native-denomination shorthands
func (m *vModel) Original() *big.Int        { return m.OriginalD(e.Denom) }
func (m *vModel) Vested(t int64) *big.Int   { return m.VestedD(t, e.Denom) }
func (m *vModel) Unvested(t int64) *big.Int { return m.UnvestedD(t, e.Denom) }
func (m *vModel) Unlocked(t int64) *big.Int { return m.UnlockedD(t, e.Denom) }
func minBig(a, b *big.Int) *big.Int {
	if a.Cmp(b) < 0 {
		return a
	}
	return b
}
func (m *vModel) UnlockedVested(t int64) *big.Int { return minBig(m.Unlocked(t), m.Vested(t)) }

// inclAt returns the model under the permissive reading of the one open
// corner: events of zero-length periods count already at their grant's start.
func (m *vModel) inclAt() *vModel {
	c := &vModel{Funder: m.Funder, Starts: m.Starts}
	relax := func(evs []vEv) []vEv {
		out := make([]vEv, len(evs))
		for i, ev := range evs {
			out[i] = ev
			if ev.T == ev.S {
				out[i].S = ev.S - 1
			}
		}
		return out
	}
	c.Vest = relax(m.Vest)
	for _, tr := range m.Tranches {
		c.Tranches = append(c.Tranches, vTranche{Lock: relax(tr.Lock), Cap: tr.Cap})
	}
	return c
}

// Locked is the statement's max(original - unlockedVested - trackedDelegated,
// unvested), under the reading of the open corner that locks least (the check
// that uses it is one-sided).
func (m *vModel) Locked(t int64, trackedDelegated *big.Int) *big.Int {
	m = m.inclAt()
	a := new(big.Int).Sub(m.Original(), m.UnlockedVested(t))
	a.Sub(a, trackedDelegated)
	u := m.Unvested(t)
	if a.Cmp(u) < 0 {
		return u
	}
	return a
}

func eventsOf(start int64, periods [][2]string, second []string, total, total2 *big.Int) []vEv {
	var out []vEv
	t := start
	if len(periods) == 0 {
		// absent schedule defaults to "everything at the start"
		if total.Sign() > 0 {
			out = append(out, vEv{T: start, S: start, A: new(big.Int).Set(total)})
		}
		if total2.Sign() > 0 {
			out = append(out, vEv{T: start, S: start, A: new(big.Int).Set(total2), D: "utest"})
		}
		return out
	}
	for i, p := range periods {
		t += e.BigS(p[0]).Int64()
		if a := e.BigS(p[1]); a.Sign() > 0 {
			out = append(out, vEv{T: t, S: start, A: a})
		}
		if i < len(second) {
			if a := e.BigS(second[i]); a.Sign() > 0 {
				out = append(out, vEv{T: t, S: start, A: a, D: "utest"})
			}
		}
	}
	return out
}

// AddGrant merges a grant: the union of both schedules' release events.
func (m *vModel) AddGrant(s Sched) {
	total, total2 := s.Total(), s.Total2()
	tr := vTranche{Lock: eventsOf(s.Start, s.Lock, s.LockU, total, total2)}
	m.Tranches = append(m.Tranches, tr)
	m.Vest = append(m.Vest, eventsOf(s.Start, s.Vest, s.VestU, total, total2)...)
	m.Starts = append(m.Starts, s.Start)
}

// UnvestedIncl is Unvested under the other reading of the one instant the
// statement leaves open: an event whose period ends exactly at its grant's start
// (zero-length period) read exactly at that start counts as released.
func (m *vModel) UnvestedInclD(t int64, d string) *big.Int {
	s := new(big.Int)
	for _, ev := range m.Vest {
		if t >= ev.T && ev.denom() == d {
			s.Add(s, ev.A)
		}
	}
	return new(big.Int).Sub(m.OriginalD(d), s)
}

func (m *vModel) UnvestedIncl(t int64) *big.Int {
	s := new(big.Int)
	for _, ev := range m.Vest {
		if t >= ev.T && ev.denom() == e.Denom {
			s.Add(s, ev.A)
		}
	}
	return new(big.Int).Sub(m.Original(), s)
}

// Clawback at time c: future vesting events are removed; everything vested
// stays, still subject to its lock-up (capped at the vested total). incl
// selects the reading of the open corner (see UnvestedIncl).
func (m *vModel) Clawback(c int64, incl bool) *big.Int {
	unv := m.Unvested(c)
	if incl {
		unv = m.UnvestedIncl(c)
	}
	var keep []vEv
	for _, ev := range m.Vest {
		if ev.released(c) || (incl && c >= ev.T) {
			keep = append(keep, ev)
		}
	}
	m.Vest = keep
	// collapse the tranches: the cap applies to the account's merged lock-up
	var all []vEv
	capSum := map[string]*big.Int{}
	for _, d := range vestDenoms {
		capSum[d] = sumAllD(keep, d)
	}
	for _, tr := range m.Tranches {
		if tr.Cap == nil {
			all = append(all, tr.Lock...)
			continue
		}
		// an already capped tranche contributes min(lock, cap): express it as events
		all = append(all, cappedEvents(tr)...)
	}
	m.Tranches = []vTranche{{Lock: all, Cap: capSum}}
	return unv
}

// cappedEvents rewrites a capped tranche as plain events releasing min(lock(t), cap).
func cappedEvents(tr vTranche) []vEv {
	evs := append([]vEv{}, tr.Lock...)
	sort.SliceStable(evs, func(i, j int) bool { return evs[i].T < evs[j].T })
	var out []vEv
	run := map[string]*big.Int{}
	for _, ev := range evs {
		d := ev.denom()
		room := new(big.Int).Sub(get(tr.Cap, d), get(run, d))
		if room.Sign() <= 0 {
			continue
		}
		a := minBig(ev.A, room)
		out = append(out, vEv{T: ev.T, S: ev.S, A: new(big.Int).Set(a), D: ev.D})
		run[d] = new(big.Int).Add(get(run, d), a)
	}
	return out
}

// SweepTimes returns the read times at which stored account and reference are
// compared: every event instant -1/0/+1, the block time, the far future. Times
// at which the statement leaves the value open (t equal to a grant's own start
// while that grant has an event at its start) are left out.
func (m *vModel) SweepTimes(now int64) []int64 {
	set := map[int64]bool{now: true, now + 1: true, 1 << 40: true}
	add := func(evs []vEv) {
		for _, ev := range evs {
			set[ev.T-1], set[ev.T], set[ev.T+1] = true, true, true
		}
	}
	add(m.Vest)
	for _, tr := range m.Tranches {
		add(tr.Lock)
	}
	var maxStart int64
	for _, s := range m.Starts {
		if s > maxStart {
			maxStart = s
		}
		delete(set, s) // corner: zero-length first period read exactly at the grant's start
	}
	var out []int64
	for t := range set {
		// "at every instant after both have started"
		if t > maxStart {
			out = append(out, t)
		}
	}
	sort.Slice(out, func(i, j int) bool { return out[i] < out[j] })
	return out
}

// modelFromAccount re-synchronises the model with a stored account (used
// after operations whose split rule the statement does not fix: liquidate,
// redeem). The stored lists are turned into absolute events; no schedule
// function of the implementation is called.
func modelFromAccount(va *vestingtypes.ClawbackVestingAccount) *vModel {
	start := va.StartTime.Unix()
	m := &vModel{Funder: va.FunderAddress, Starts: []int64{start}}
	conv := func(ps sdkvesting.Periods) []vEv {
		var out []vEv
		t := start
		for _, p := range ps {
			t += p.Length
			out = append(out, vEv{T: t, S: start, A: p.Amount.AmountOf(e.Denom).BigInt()})
			if u := p.Amount.AmountOf("utest"); u.IsPositive() {
				out = append(out, vEv{T: t, S: start, A: u.BigInt(), D: "utest"})
			}
		}
		return out
	}
	m.Tranches = []vTranche{{Lock: conv(va.LockupPeriods)}}
	m.Vest = conv(va.VestingPeriods)
	return m
}

// compareAccount checks the stored account against the reference at every
// swept read time (C09) and returns the first mismatch.
func compareAccount(w *e.World, idx int, va *vestingtypes.ClawbackVestingAccount, m *vModel) *e.Violation {
	now := w.Now.Unix()
	for _, d := range vestDenoms {
		orig := va.OriginalVesting.AmountOf(d).BigInt()
		if orig.Cmp(m.OriginalD(d)) != 0 {
			return e.Violatef("vesting-arithmetic", "original-vesting-wrong", "acct %d: stored original vesting %s %s, reference %s", idx, orig, d, m.OriginalD(d))
		}
		if d != e.Denom && orig.Sign() > 0 {
			w.Stats.Probe("multi_denom_schedule_compared")
		}
		var prevV, prevU *big.Int
		for _, t := range m.SweepTimes(now) {
			tt := time.Unix(t, 0)
			v := va.GetVestedCoins(tt).AmountOf(d).BigInt()
			u := va.GetUnlockedCoins(tt).AmountOf(d).BigInt()
			unv := va.GetVestingCoins(tt).AmountOf(d).BigInt()
			lockedUp := va.GetLockedUpCoins(tt).AmountOf(d).BigInt()
			rv, ru := m.VestedD(t, d), m.UnlockedD(t, d)
			w.Stats.Oracle++
			if v.Cmp(rv) != 0 {
				return e.Violatef("vesting-arithmetic", "vested-amount-differs-from-reference", "acct %d, %s, at read time %d (block time %d): stored account says vested %s, reference (sum of periods ended by t) %s", idx, d, t, now, v, rv)
			}
			if u.Cmp(ru) != 0 {
				rel := "later"
				if u.Cmp(ru) > 0 {
					rel = "earlier"
				}
				return e.Violatef("vesting-arithmetic", "unlocked-amount-differs-from-reference:"+rel, "acct %d, %s, at read time %d (block time %d): stored account says unlocked %s, reference %s (original %s)", idx, d, t, now, u, ru, orig)
			}
			if new(big.Int).Add(v, unv).Cmp(orig) != 0 || new(big.Int).Add(u, lockedUp).Cmp(orig) != 0 {
				return e.Violatef("vesting-arithmetic", "parts-do-not-sum-to-original", "acct %d, %s, at %d: vested %s + unvested %s, unlocked %s + locked %s, original %s", idx, d, t, v, unv, u, lockedUp, orig)
			}
			if v.Sign() < 0 || u.Sign() < 0 || unv.Sign() < 0 || lockedUp.Sign() < 0 {
				return e.Violatef("vesting-arithmetic", "negative-amount", "acct %d at %d", idx, t)
			}
			if prevV != nil && (v.Cmp(prevV) < 0 || u.Cmp(prevU) < 0) {
				return e.Violatef("vesting-arithmetic", "schedule-not-monotone", "acct %d, %s, at %d: vested %s (before %s), unlocked %s (before %s)", idx, d, t, v, prevV, u, prevU)
			}
			prevV, prevU = v, u
		}
	}
	if !va.OriginalVesting.IsZero() {
		if err := va.Validate(); err != nil {
			return e.Violatef("vesting-arithmetic", "stored-account-invalid", "acct %d: %v (original %s, start %d, end %d, lockup %v, vesting %v)", idx, err, va.OriginalVesting, va.StartTime.Unix(), va.EndTime, va.LockupPeriods, va.VestingPeriods)
		}
	}
	return nil
}

func fmtEvents(evs []vEv) string {
	s := ""
	for _, ev := range evs {
		s += fmt.Sprintf("(%d:%s)", ev.T, ev.A)
	}
	return s
}

var _ = sdk.Coins{}
