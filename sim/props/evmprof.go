package props

import (
	"encoding/json"
	"fmt"
	"math/big"
	"os"
	"sort"
	"strings"

	abci "github.com/cometbft/cometbft/abci/types"
	sdk "github.com/cosmos/cosmos-sdk/types"
	stakingtypes "github.com/cosmos/cosmos-sdk/x/staking/types"
	"github.com/ethereum/go-ethereum/common"

	e "haqqsim/engine"
	"haqqsim/evmprog"

	evmtypes "github.com/haqq-network/haqq/x/evm/types"
)

// The EVM profile serves C05 (reverted frames leave no trace), C02 (EVM
// execution never mints or burns) and C04 (precompiles act only for signer or
// caller, within grants). Hostile contracts are the fault injectors: call
// frames that revert / hit INVALID / run out of a drawn gas stipend at a chosen
// place, try/catch, attached value, re-entrancy — all as data (FIC programs).
type evmprof struct{ id string }

func init() {
	register("C05", func() e.Profile { return &evmprof{"C05"} })
	register("C02", func() e.Profile { return &evmprof{"C02"} })
	register("C04", newC04)
}

func (p *evmprof) ID() string { return p.id }

func (p *evmprof) Configure(r *e.RNG, tier string) e.Config {
	c := e.DefaultConfig()
	c.NVals = int(r.Range(1, 3))
	c.NAccts = c.NVals + int(r.Range(3, 4))
	c.NoBaseFee = true // fees are zero in this profile, so gas cannot leak into state
	c.MinGasPrice = "0"
	c.MinGasMult = "0"
	c.UnbondingSecs = []int64{30, 3600}[r.Intn(2)]
	c.SlashWindow = r.Range(3, 8)
	c.Flags["w_blk"] = r.Range(2, 5)
	c.Flags["w_prog"] = r.Range(6, 12)
	c.Flags["w_direct"] = r.Range(2, 6)
	c.Flags["w_approve"] = r.Range(2, 6)
	c.Flags["w_cosmos"] = r.Range(0, 3)
	c.Flags["p_absent"] = r.Range(0, 20)
	c.Flags["p_evidence"] = r.Range(0, 5)
	c.Flags["p_value"] = r.Range(0, 60) // percent of programs with value attached by the signer
	// Regimes (known findings must not mask other violations): a third of the
	// runs have no precompile call inside programs (pure EVM revert semantics), a
	// quarter have precompile calls but no failing frames / gas stipends.
	switch r.Weighted([]int{35, 25, 40}) {
	case 0:
		c.Flags["no_precompile"] = 1
	case 1:
		c.Flags["no_frame_failures"] = 1
		if r.Chance(0.5) {
			c.Flags["p_value"] = 0
		}
	}
	if r.Chance(0.5) {
		c.Flags["fic_staked"] = 1 // the contracts hold stake and earn rewards themselves
	}
	if p.id == "C05" {
		// disposable contracts that may self-destruct; few storage keys/values so that
		// frames restore committed values
		if r.Chance(0.5) {
			c.Flags["victims"] = 2
		}
		if r.Chance(0.5) {
			c.Flags["small_vals"] = 1
		}
	}
	// fees are zero here, so only coinomics makes staking rewards non-zero
	c.Coinomics = r.Chance(0.6)
	// jail_bias: a validator misses most blocks and is jailed early, so that grants
	// made afterwards do not name it; unlimited grants are frequent
	if c.NVals >= 2 && r.Chance(0.35) {
		c.Flags["jail_bias"] = 1
		c.Flags["p_absent"] = 75
		c.SlashWindow = 3
	}
	return c
}

func (p *evmprof) Length(cfg e.Config, tier string) int {
	if tier == "thorough" {
		return 160
	}
	return 50
}

func (p *evmprof) Tier(tier string) (uint64, int64) {
	if tier == "thorough" {
		return 3000, 2400
	}
	if p.id == "C05" {
		return 240, 300 // three forked executions per program
	}
	return 400, 300
}

func (p *evmprof) MandatoryProbes() []string {
	switch p.id {
	case "C05":
		return []string{"differential_compared", "inner_frame_failed_tx_succeeded", "precompile_call_committed"}
	case "C02":
		return []string{"supply_checked", "precompile_call_committed", "value_attached_with_precompile_call"}
	case "C15":
		return []string{"precompile_call_committed"}
	default:
		return []string{"noninterference_checked", "precompile_call_committed", "grant_spent_by_contract"}
	}
}

func (p *evmprof) Setup(w *e.World) error { return setupEVMWorld(w) }

func (p *evmprof) Gen(w *e.World, r *e.RNG) e.Step {
	f := w.Cfg.Flags
	lo := w.Cfg.NVals
	n := len(w.Accts) - lo
	signer := lo + r.Intn(n)
	if r.Chance(0.2) {
		signer = r.Intn(len(w.Accts)) // validators' operators too (commission)
	}
	switch r.Weighted([]int{int(f["w_blk"]), int(f["w_prog"]), int(f["w_direct"]), int(f["w_approve"]), int(f["w_cosmos"])}) {
	case 0:
		st := genBlk(w, r)
		if st.Dt > 100_000_000 {
			if p.id == "C04" && st.Dt > 300*86_400_000 && r.Chance(0.5) {
				// more than a year passes: every allowance made so far expires
				w.Stats.Fault("clock_jump_past_grant_expiry")
				return st
			}
			st.Dt = r.Range(1000, 100000)
		}
		return st
	case 1:
		fic := r.Intn(nFIC)
		// grant-then-use: half of the programs run on the contract, and for the
		// signer, of the most recent grant
		if lg, ok := w.Ext["evm_last_grant"].([2]int); ok && r.Chance(0.5) {
			signer, fic = lg[0], lg[1]
		}
		budget := 8
		pr := Prog{FIC: fic, Gas: 6_000_000, Nodes: genProgram(w, r, signer, fic, 0, &budget)}
		if nv := int(f["victims"]); nv > 0 && r.Chance(0.25) {
			// the same disposable contract is destroyed in a frame that survives and
			// once more in a frame that fails (in either order), among other work
			v := nFIC + r.Intn(nv)
			ben := fmt.Sprintf("acct:%d", w.AnyAcct(r))
			kill := func() *evmprog.Node {
				return &evmprog.Node{Kind: evmprog.OpCall, Target: fmt.Sprintf("fic:%d", v), Catch: true, Sub: []*evmprog.Node{{Kind: evmprog.OpSelfDestruct, Target: ben}}}
			}
			failing := &evmprog.Node{Kind: evmprog.OpCall, Target: fmt.Sprintf("fic:%d", r.Intn(nFIC)), Catch: true, Sub: []*evmprog.Node{kill(), {Kind: []int{evmprog.OpRevert, evmprog.OpInvalid}[r.Intn(2)]}}}
			pat := []*evmprog.Node{kill(), failing}
			if r.Chance(0.4) {
				pat = []*evmprog.Node{failing, kill()}
			}
			if r.Chance(0.3) {
				pat = append(pat, kill())
			}
			pr.Nodes = append(pat, pr.Nodes...)
		}
		if f["small_vals"] == 1 && r.Chance(0.25) {
			// a surviving frame changes a slot, a failing re-entrant frame writes the
			// value the slot had before the transaction
			k := uint64(r.Intn(2))
			cur := w.App().EvmKeeper.GetState(w.Ctx(), ew(w).fics[fic], common.BigToHash(new(big.Int).SetUint64(k))).Big().Uint64()
			pat := []*evmprog.Node{
				{Kind: evmprog.OpSStore, Key: k, Val: cur + 1 + uint64(r.Intn(2))},
				{Kind: evmprog.OpCall, Target: fmt.Sprintf("fic:%d", fic), Catch: true, Sub: []*evmprog.Node{{Kind: evmprog.OpSStore, Key: k, Val: cur}, {Kind: []int{evmprog.OpRevert, evmprog.OpInvalid}[r.Intn(2)]}}},
			}
			pr.Nodes = append(pat, pr.Nodes...)
		}
		if lg, ok := w.Ext["evm_last_grant"].([2]int); ok && f["no_precompile"] != 1 && len(w.Vals) >= 2 && r.Chance(0.12) {
			// the grantee contract moves a little of the granter's stake around (partial
			// spends keep the grant alive: its limit and expiry must survive correctly)
			signer, fic = lg[0], lg[1]
			pr.FIC = fic
			src := signer % len(w.Vals)
			m := []string{"redelegate", "undelegate", "delegate"}[r.Intn(3)]
			raw, _ := json.Marshal(&PCall{PC: "staking", M: m, Who: fmt.Sprintf("acct:%d", signer), Val: src, Val2: (src + 1) % len(w.Vals), Amt: fmt.Sprint(r.Range(1, 1_000_000))})
			pr.Nodes = append([]*evmprog.Node{{Kind: evmprog.OpCall, Target: "pre:staking", Catch: true, Call: raw}}, pr.Nodes...)
		}
		if f["no_precompile"] != 1 && r.Chance(0.08) {
			// look at a staking pool, delegate through the precompile, then pay the pool a little
			pool := common.BytesToAddress(e.ModuleAddr([]string{stakingtypes.BondedPoolName, stakingtypes.NotBondedPoolName}[r.Intn(2)]).Bytes()).Hex()
			who := fmt.Sprintf("acct:%d", signer)
			if r.Chance(0.3) {
				who = fmt.Sprintf("fic:%d", fic)
			}
			raw, _ := json.Marshal(&PCall{PC: "staking", M: "delegate", Who: who, Val: r.Intn(len(w.Vals)), Amt: r.Amount(e.BigS("1000000000000000000")).String()})
			pat := []*evmprog.Node{
				{Kind: evmprog.OpCall, Target: pool, Catch: true},
				{Kind: evmprog.OpCall, Target: "pre:staking", Catch: true, Call: raw},
				{Kind: evmprog.OpCall, Target: pool, Catch: true, Value: big.NewInt(r.Range(1, 1000)).String()},
			}
			pr.Nodes = append(pat, pr.Nodes...)
		}
		if f["no_precompile"] == 1 {
			pr.Nodes = stripNodes(pr.Nodes, func(n *evmprog.Node) bool { return n.Call != nil })
		}
		if f["no_frame_failures"] == 1 {
			pr.Nodes = stripNodes(pr.Nodes, func(n *evmprog.Node) bool {
				n.Gas = 0
				if n.Kind == evmprog.OpStaticCall || n.Kind == evmprog.OpDelegateCall || n.Kind == evmprog.OpCallCode {
					n.Kind = evmprog.OpCall
				}
				return n.Kind == evmprog.OpRevert || n.Kind == evmprog.OpInvalid
			})
		}
		if int64(r.Intn(100)) < f["p_value"] {
			pr.Value = r.Amount(big.NewInt(1_000_000_000)).String()
		}
		raw, _ := json.Marshal(pr)
		return e.Step{K: "tx", Op: "prog", A: signer, P: raw}
	case 2:
		pc := genPCall(w, r, signer, -1)
		raw, _ := json.Marshal(pc)
		return e.Step{K: "tx", Op: "direct", A: signer, P: raw}
	case 3:
		// grant life cycle: approve / increase / decrease / revoke towards a FIC (or an account)
		pc := &PCall{PC: "staking", M: []string{"approve", "approve", "increaseAllowance", "decreaseAllowance", "revoke"}[r.Intn(5)]}
		gf := r.Intn(nFIC)
		pc.To = fmt.Sprintf("fic:%d", gf)
		if r.Chance(0.1) {
			pc.To = fmt.Sprintf("acct:%d", r.Intn(nAcc(w)))
		} else {
			w.Ext["evm_last_grant"] = [2]int{signer, gf}
		}
		amt := r.Amount(e.BigS("4000000000000000000"))
		if r.Chance(0.15) || (f["jail_bias"] == 1 && r.Chance(0.3)) {
			amt = new(big.Int).Sub(new(big.Int).Lsh(big.NewInt(1), 256), big.NewInt(1)) // unlimited
		}
		pc.Amt = amt.String()
		exact := pc.M == "decreaseAllowance" && r.Chance(0.35)
		k := 1 + r.Intn(len(stakingMsgURLs))
		perm := r.Perm(len(stakingMsgURLs))
		for _, i := range perm[:k] {
			pc.Methods = append(pc.Methods, stakingMsgURLs[i])
		}
		sort.Strings(pc.Methods)
		if exact {
			// take away exactly what is left of one existing limited grant
			if to, ok := ew(w).resolveAddr(w, pc.To); ok {
				for _, url := range stakingMsgURLs {
					auth, _ := w.App().AuthzKeeper.GetAuthorization(w.Ctx(), to.Bytes(), w.Acct(signer).Acc, url)
					if sa, ok := auth.(*stakingtypes.StakeAuthorization); ok && sa.MaxTokens != nil {
						pc.Amt, pc.Methods = sa.MaxTokens.Amount.String(), []string{url}
						break
					}
				}
			}
		}
		raw, _ := json.Marshal(pc)
		return e.Step{K: "tx", Op: "direct", A: signer, P: raw}
	default:
		ops := []string{"delegate", "undelegate", "send", "withdraw", "set_withdraw"}
		return Ops[ops[r.Intn(len(ops))]].Gen(w, r)
	}
}

// stripNodes removes the nodes for which drop returns true (recursively).
func stripNodes(nodes []*evmprog.Node, drop func(*evmprog.Node) bool) []*evmprog.Node {
	var out []*evmprog.Node
	for _, n := range nodes {
		if drop(n) {
			continue
		}
		if n.Sub != nil {
			n.Sub = stripNodes(n.Sub, drop)
			if n.Sub == nil {
				n.Sub = []*evmprog.Node{}
			}
		}
		out = append(out, n)
	}
	return out
}

// ---------------------------------------------------------------------------

func (p *evmprof) buildProgTx(w *e.World, signer *e.Account, pr *Prog) ([]byte, bool) {
	m := ew(w)
	if pr.FIC < 0 || pr.FIC >= len(m.fics) {
		return nil, false
	}
	data, err := evmprog.Encode(pr.Nodes, ficResolver{w, m})
	if err != nil {
		return nil, false
	}
	to := m.fics[pr.FIC]
	gas := pr.Gas
	if gas == 0 {
		gas = 6_000_000
	}
	bz, _, err := w.BuildEthTx(signer, e.EthArgs{Type: 2, To: &to, Value: e.BigS(pr.Value), Gas: gas, Data: data})
	return bz, err == nil
}

type progOutcome struct {
	code    uint32
	vmErr   string
	ret     []byte
	logs    int
	frames  []*evmprog.Frame
	gasUsed uint64
}

func decodeOutcome(w *e.World, pr *Prog, res e.TxResult) progOutcome {
	o := progOutcome{code: res.Code}
	if res.Code != 0 {
		return o
	}
	var txData sdk.TxMsgData
	if w.Enc.Codec.Unmarshal(res.Data, &txData) != nil || len(txData.MsgResponses) == 0 {
		return o
	}
	var r evmtypes.MsgEthereumTxResponse
	if w.Enc.Codec.Unmarshal(txData.MsgResponses[0].Value, &r) != nil {
		return o
	}
	o.vmErr, o.ret, o.logs, o.gasUsed = r.VmError, r.Ret, len(r.Logs), r.GasUsed
	o.frames, _ = evmprog.Decode(pr.Nodes, r.Ret)
	return o
}

// frameFacts walks a trace and collects what the oracles need.
type frameFacts struct {
	committedPC      []string // "staking.delegate@fic:1" committed state-changing precompile calls
	inFailedFrame    []string // precompile calls inside a frame that failed, and precompile calls that failed themselves
	enclosedInFailed int      // precompile calls inside an enclosing frame that failed
	innerFailed      int
	failedNoPC       int
	callers          map[string]bool // contracts that made a committed state-changing precompile call
	committedPCalls  []committedCall
}

type committedCall struct {
	pc     PCall
	caller int // FIC index
}

func collectFacts(nodes []*evmprog.Node, frames []*evmprog.Frame, self int, parentFailed bool, ff *frameFacts) {
	for _, fr := range frames {
		n := fr.Node
		failedHere := parentFailed || !fr.Success
		if n.Call != nil {
			var c PCall
			json.Unmarshal(n.Call, &c)
			// (every precompile call that gets past argument decoding flushes the EVM
			// state to the SDK context, whatever it does afterwards)
			if fr.Success && c.stateChanging() && n.Kind == evmprog.OpCall {
				name := c.PC + "." + c.M
				if parentFailed {
				} else {
					ff.committedPC = append(ff.committedPC, name)
					ff.callers[fmt.Sprintf("fic:%d", self)] = true
					ff.committedPCalls = append(ff.committedPCalls, committedCall{pc: c, caller: self})
				}
			}
		}
		if !fr.Success {
			ff.innerFailed++
			// what ran inside a failed frame is not always reported (INVALID / out of gas
			// leave no return data): classify by what the frame's program contains
			if n.Call != nil && !parentFailed {
				var c PCall
				json.Unmarshal(n.Call, &c)
				ff.inFailedFrame = append(ff.inFailedFrame, c.PC+"."+c.M+"(itself)")
			}
			if n.Sub != nil && !parentFailed {
				walkProg(n.Sub, -1, func(x *evmprog.Node, _ int) {
					if x.Call != nil {
						var c PCall
						json.Unmarshal(x.Call, &c)
						ff.inFailedFrame = append(ff.inFailedFrame, c.PC+"."+c.M)
						ff.enclosedInFailed++
					}
				})
			}
		}
		if n.Sub != nil {
			callee := -1
			fmt.Sscanf(n.Target, "fic:%d", &callee)
			if n.Kind == evmprog.OpDelegateCall || n.Kind == evmprog.OpCallCode {
				callee = self
			}
			collectFacts(n.Sub, fr.Sub, callee, failedHere, ff)
		}
	}
}

// prune returns the program with every frame that failed replaced by a stub
// that fails without doing anything.
func prune(nodes []*evmprog.Node, frames []*evmprog.Frame) []*evmprog.Node {
	byNode := map[*evmprog.Node]*evmprog.Frame{}
	for _, fr := range frames {
		byNode[fr.Node] = fr
	}
	var out []*evmprog.Node
	for _, n := range nodes {
		c := *n
		fr := byNode[n]
		switch {
		case fr == nil:
			// not executed (after an uncaught failure, or not a call): keep
		case !fr.Success:
			stub := []*evmprog.Node{{Kind: evmprog.OpRevert}}
			if c.Sub == nil {
				c.Target = "fic:0"
				c.Call = nil
				c.Data = ""
				if c.Kind == evmprog.OpStaticCall {
					c.Kind = evmprog.OpCall
				}
			}
			c.Sub = stub
		case c.Sub != nil:
			c.Sub = prune(n.Sub, fr.Sub)
		}
		out = append(out, &c)
	}
	return out
}

func runOnFork(w *e.World, r *e.Replica, bz []byte) e.TxResult {
	r.DB.Phase = "deliver"
	res := r.App.DeliverTx(abci.RequestDeliverTx{Tx: bz})
	return e.TxResult{Code: res.Code, Codespace: res.Codespace, Data: res.Data, GasWanted: res.GasWanted, GasUsed: res.GasUsed, Log: res.Log, Events: res.Events}
}

func finishFork(w *e.World, r *e.Replica) {
	r.DB.Phase = "end"
	r.App.EndBlock(abci.RequestEndBlock{Height: w.Height})
	r.DB.Phase = "commit"
	r.App.Commit()
}

// c05Differential: fork A runs P, fork B runs P with every failed frame
// replaced by a do-nothing failing stub; the committed stores must be equal.
func (p *evmprof) c05Differential(w *e.World, signer *e.Account, pr *Prog) *e.Violation {
	bzP, ok := p.buildProgTx(w, signer, pr)
	if !ok {
		return nil
	}
	A, B := w.Fork(0), w.Fork(0)
	for _, r := range []*e.Replica{A, B} {
		r.DB.Phase = "begin"
		r.App.BeginBlock(w.BlockReq)
	}
	resA := runOnFork(w, A, bzP)
	oa := decodeOutcome(w, pr, resA)
	if oa.code != 0 {
		return nil // rejected before execution (ante): not a frame fault
	}
	pruned := &Prog{FIC: pr.FIC, Value: pr.Value, Gas: pr.Gas}
	topFailed := oa.vmErr != ""
	if topFailed {
		pruned.Nodes = []*evmprog.Node{{Kind: evmprog.OpRevert}}
	} else {
		pruned.Nodes = prune(pr.Nodes, oa.frames)
	}
	bzQ, ok := p.buildProgTx(w, signer, pruned)
	if !ok {
		return nil
	}
	resB := runOnFork(w, B, bzQ)
	ob := decodeOutcome(w, pruned, resB)
	finishFork(w, A)
	finishFork(w, B)
	w.Stats.Oracle++
	w.Stats.Probe("differential_compared")
	ff := &frameFacts{callers: map[string]bool{}}
	collectFacts(pr.Nodes, oa.frames, pr.FIC, topFailed, ff)
	if ff.innerFailed > 0 && !topFailed {
		w.Stats.Probe("inner_frame_failed_tx_succeeded")
		w.Stats.Fault("inner_frame_failure")
	}
	if len(ff.committedPC) > 0 {
		w.Stats.Probe("precompile_call_committed")
	}
	if len(ff.inFailedFrame) > 0 {
		w.Stats.Probe("precompile_call_inside_failed_frame")
		w.Stats.Fault("frame_failure_after_precompile_call")
	}
	if topFailed {
		w.Stats.Probe("top_frame_failed")
	}
	if ob.code != 0 || (ob.vmErr != "") != topFailed {
		return e.Violatef("frame-revert", "pruned-program-outcome-differs", "program %s: outcome of P (vm error %q) vs pruned P' (code %d vm error %q)", trunc(string(mustJSON(pr)), 400), oa.vmErr, ob.code, ob.vmErr)
	}
	var diff []string
	for _, s := range e.DiffStoreNames(A.App, B.App) {
		// store hashes also cover IAVL node versions: a key that was rewritten with
		// the value it already had changes the hash but not the content
		entries := e.DiffStoreEntries(A.App, B.App, s)
		if len(entries) == 0 {
			w.Stats.Probe("same_content_different_node_version")
			continue
		}
		if s == "evm" && onlyZeroSlotArtefacts(entries) {
			w.Stats.Probe("zero_slot_entry_vs_absent")
			continue
		}
		if s != "feemarket" {
			diff = append(diff, s)
		}
	}
	kind := "no-precompile-call-in-failed-frame"
	if len(ff.inFailedFrame) > 0 {
		kind = "failed-frame-contains-precompile-call"
		if ff.enclosedInFailed == 0 {
			// the only failed frames with a precompile call are precompile calls that
			// failed themselves: they must not leave anything behind (their own work
			// runs on a cached context since the C02-003 repair)
			kind = "only-the-precompile-call-itself-failed"
			w.Stats.Probe("precompile_call_failed_itself")
		}
	}
	if kind == "failed-frame-contains-precompile-call" && len(diff) == 1 && diff[0] == "evm" && !topFailed {
		// The open finding C05-001 covers contract storage only for a contract that
		// has no surviving change of its own in the transaction (its flushed slots are
		// then never written back). A contract that IS dirty at the end gets every
		// slot restored, even across a flush (the StateDB remembers flushed values).
		// If the storage of such a contract differs, that is something else and gets
		// its own, unlisted kind.
		dirty := map[int]bool{}
		if e.BigS(pr.Value).Sign() > 0 {
			dirty[pr.FIC] = true
		}
		cur := map[[2]uint64]uint64{}
		slot := func(fic int, key uint64) uint64 {
			k := [2]uint64{uint64(fic), key}
			if v, ok := cur[k]; ok {
				return v
			}
			v := w.App().EvmKeeper.GetState(w.Ctx(), ew(w).fics[fic], common.BigToHash(new(big.Int).SetUint64(key))).Big().Uint64()
			cur[k] = v
			return v
		}
		survivingWrites(pr.Nodes, oa.frames, pr.FIC, dirty, func(fic int, key, val uint64) bool {
			changed := slot(fic, key) != val
			cur[[2]uint64{uint64(fic), key}] = val
			return changed
		})
		for _, d := range e.DiffStoreEntries(A.App, B.App, "evm") {
			if len(d.Key) == 1+20+32 && d.Key[0] == 0x02 {
				for i, f := range ew(w).fics {
					if string(f.Bytes()) == string(d.Key[1:21]) && dirty[i] {
						kind = "failed-frame-contains-precompile-call-but-storage-of-a-contract-with-surviving-changes-differs"
					}
				}
			}
		}
	}
	if len(diff) > 0 {
		what := "inner-frame"
		if topFailed {
			what = "whole-tx"
		}
		return e.Violatef("frame-revert", "effects-of-failed-frame-survive:"+kind+":"+what+":stores="+strings.Join(diff, ","),
			"stores %v differ between running the program and running it with every failed frame replaced by a do-nothing failing stub; precompile calls inside failed frames: %v; first differing keys of %s: %v; program: %s", diff, ff.inFailedFrame, diff[0], e.DiffStoreKV(A.App, B.App, diff[0], 3), trunc(string(mustJSON(pr)), 600))
	}
	if oa.logs != ob.logs {
		return e.Violatef("frame-revert", "logs-of-failed-frame-survive:"+kind, "P emitted %d logs, pruned P' %d; program: %s", oa.logs, ob.logs, trunc(string(mustJSON(pr)), 400))
	}
	w.Stats.State(fmt.Sprintf("failed=%d,top=%v,pcInFailed=%d", ff.innerFailed, topFailed, len(ff.inFailedFrame)))
	return nil
}

// onlyZeroSlotArtefacts: the EVM keeper stores a storage slot that was written
// (flushed) and later set back to zero as an explicit all-zero entry, while a
// slot that never reached the store has no entry. Both read as zero everywhere
// (SLOAD, storage queries); the differential does not count that
// representation difference as a trace of the failed frame.
func onlyZeroSlotArtefacts(ds []e.KVDiff) bool {
	isZero := func(b []byte) bool {
		for _, x := range b {
			if x != 0 {
				return false
			}
		}
		return true
	}
	for _, d := range ds {
		storageKey := len(d.Key) == 1+20+32 && d.Key[0] == 0x02
		if !storageKey || !((d.A == nil && isZero(d.B)) || (d.B == nil && isZero(d.A))) {
			return false
		}
	}
	return len(ds) > 0
}

// survivingWrites marks the FIC instances that end the transaction dirty:
// SSTOREs and value transfers executed in frames that succeeded (all ancestors
// included). nodes/frames: the op list run by `self` in a frame that succeeded.
func survivingWrites(nodes []*evmprog.Node, frames []*evmprog.Frame, self int, dirty map[int]bool, store func(fic int, key, val uint64) bool) {
	byNode := map[*evmprog.Node]*evmprog.Frame{}
	for _, fr := range frames {
		byNode[fr.Node] = fr
	}
	for _, n := range nodes {
		switch n.Kind {
		case evmprog.OpSStore:
			// (an SSTORE of the value the slot already has leaves no journal entry)
			if self >= 0 && self < nFIC && store(self, n.Key, n.Val) {
				dirty[self] = true
			}
		case evmprog.OpCall, evmprog.OpCallCode, evmprog.OpDelegateCall, evmprog.OpStaticCall:
			fr := byNode[n]
			if fr == nil {
				return // not executed: an earlier uncaught failure ended the frame (cannot happen in a successful frame)
			}
			if !fr.Success {
				continue
			}
			callee := -1
			fmt.Sscanf(n.Target, "fic:%d", &callee)
			if e.BigS(n.Value).Sign() > 0 && (n.Kind == evmprog.OpCall || n.Kind == evmprog.OpCallCode) {
				if self >= 0 {
					dirty[self] = true
				}
				if callee >= 0 && n.Kind == evmprog.OpCall {
					dirty[callee] = true
				}
			}
			if n.Sub != nil {
				who := callee
				if n.Kind == evmprog.OpDelegateCall || n.Kind == evmprog.OpCallCode {
					who = self
				}
				survivingWrites(n.Sub, fr.Sub, who, dirty, store)
			}
		}
	}
}

func dumpFrames(frs []*evmprog.Frame, depth int) {
	for _, fr := range frs {
		fmt.Fprintf(os.Stderr, "%sframe kind=%d target=%s ok=%v ret=%x\n", strings.Repeat("  ", depth), fr.Node.Kind, fr.Node.Target, fr.Success, fr.Ret)
		dumpFrames(fr.Sub, depth+1)
	}
}

func mustJSON(v any) []byte { b, _ := json.Marshal(v); return b }

func (p *evmprof) Exec(w *e.World, st *e.Step) *e.Violation {
	if v, ok := ExecCommon(w, st); ok {
		if v == nil && p.id == "C15" && st.K == "blk" {
			return checkInvariants(w) // the registered accounting invariants after every block
		}
		return v
	}
	if st.K != "tx" {
		return nil
	}
	switch st.Op {
	case "prog":
		var pr Prog
		if json.Unmarshal(st.P, &pr) != nil || st.A >= len(w.Accts) {
			return nil
		}
		signer := w.Acct(st.A)
		if p.id == "C05" {
			// the program must be the first tx of a block: the fork boundary is the last commit
			blk := e.BlkStep(3000, nil)
			w.MustBlk(&blk)
			if v := p.c05Differential(w, signer, &pr); v != nil {
				return v
			}
		}
		bz, ok := p.buildProgTx(w, signer, &pr)
		if !ok {
			return nil
		}
		return p.deliverChecked(w, st, bz, &pr, nil)
	case "direct":
		var pc PCall
		if json.Unmarshal(st.P, &pc) != nil || st.A >= len(w.Accts) {
			return nil
		}
		m := ew(w)
		data, ok := m.packPCall(w, &pc)
		if !ok {
			return nil
		}
		to, _ := m.resolveAddr(w, "pre:"+pc.PC)
		bz, _, err := w.BuildEthTx(w.Acct(st.A), e.EthArgs{Type: 2, To: &to, Gas: 2_000_000, Data: data})
		if err != nil {
			return nil
		}
		return p.deliverChecked(w, st, bz, nil, &pc)
	default:
		ExecOp(w, st)
	}
	return nil
}

// deliverChecked delivers an EVM tx on the main world under the C02 / C04 oracles.
func (p *evmprof) deliverChecked(w *e.World, st *e.Step, bz []byte, pr *Prog, direct *PCall) *e.Violation {
	var pre *evmSnap
	if p.id == "C02" || p.id == "C04" {
		pre = snapEVM(w)
	}
	res := w.DeliverTx(bz)
	w.Stats.Op(st.Op, res.Code == 0)
	ff := &frameFacts{callers: map[string]bool{}}
	vmFailed := false
	if pr != nil {
		o := decodeOutcome(w, pr, res)
		vmFailed = o.vmErr != "" || o.code != 0
		if o.code == 0 {
			collectFacts(pr.Nodes, o.frames, pr.FIC, o.vmErr != "", ff)
		}
		if os.Getenv("HAQQSIM_OPLOG") != "" {
			fmt.Fprintf(os.Stderr, "prog code=%d vmErr=%q gas=%d log=%s\n", o.code, o.vmErr, o.gasUsed, trunc(res.Log, 300))
			dumpFrames(o.frames, 1)
		}
	} else if direct != nil && res.Code == 0 {
		if r, err := w.EthResponse(res); err == nil && !r.Failed() && direct.stateChanging() {
			ff.committedPC = append(ff.committedPC, direct.PC+"."+direct.M)
			ff.committedPCalls = append(ff.committedPCalls, committedCall{pc: *direct, caller: -1})
		} else {
			vmFailed = true
		}
	}
	if len(ff.committedPC) > 0 {
		w.Stats.Probe("precompile_call_committed")
		for _, c := range ff.committedPC {
			w.Stats.State("committed:" + c)
		}
	}
	if pre == nil {
		return nil
	}
	post := snapEVM(w)
	switch p.id {
	case "C02":
		return c02Check(w, st, pr, pre, post, ff, res)
	case "C04":
		return c04Check(w, st, pr, direct, pre, post, ff, res, vmFailed)
	}
	return nil
}

func (p *evmprof) Final(w *e.World) *e.Violation {
	Tail(w, 2)
	if p.id == "C15" {
		return checkInvariants(w)
	}
	return nil
}

var _ = common.Address{}
