package props

import (
	"bytes"
	"encoding/json"
	"fmt"
	"math/big"
	"os"
	"sort"
	"strings"
	"time"

	abci "github.com/cometbft/cometbft/abci/types"
	sdk "github.com/cosmos/cosmos-sdk/types"
	banktypes "github.com/cosmos/cosmos-sdk/x/bank/types"
	stakingtypes "github.com/cosmos/cosmos-sdk/x/staking/types"
	"github.com/ethereum/go-ethereum/common"

	e "haqqsim/engine"

	erc20types "github.com/haqq-network/haqq/x/erc20/types"
	evmtypes "github.com/haqq-network/haqq/x/evm/types"
	vestingtypes "github.com/haqq-network/haqq/x/vesting/types"
)

// C19 — exported genesis re-imports to the same state.
//
// World: the mixed profile (rich, history-generated states). At seeded block
// boundaries the node's disk is forked; the fork is exported, a FRESH
// application is initialised from the export, and then
//
//	(1) export(import(export(S))) is compared with export(S) section by section,
//	(2) a query set over the Haqq modules is compared on both applications,
//	(3) both continue with the same two blocks of traffic and are exported and
//	    compared again (state that is only visible through behaviour).
type c19 struct{ mixed }

func init() { register("C19", func() e.Profile { return &c19{mixed{"C19"}} }) }

func (c *c19) Configure(r *e.RNG, tier string) e.Config {
	cfg := c.mixed.Configure(r, tier)
	cfg.Replicas = 1
	cfg.Flags["w_export"] = r.Range(1, 3)
	cfg.Flags["byz_basic"] = 0
	// pair_bias: token pairs exist early and governance toggles them often, so that
	// exports contain disabled pairs
	if r.Chance(0.35) {
		cfg.Flags["pair_bias"] = 1
		cfg.Flags["w_lv_liquidate"] = r.Range(4, 7)
		cfg.Flags["w_vest_create"] = r.Range(3, 5)
		cfg.Flags["w_govevm"] = r.Range(2, 4)
		cfg.GovVotingSecs = r.Range(2, 15)
		cfg.LVMinimum = "1"
	}
	return cfg
}

func (c *c19) Length(cfg e.Config, tier string) int {
	if tier == "thorough" {
		return 250
	}
	return 90
}

func (c *c19) Tier(tier string) (uint64, int64) {
	if tier == "thorough" {
		return 1500, 2400
	}
	return 96, 300
}

func (c *c19) MandatoryProbes() []string { return []string{"export_import_compared"} }

func (c *c19) Setup(w *e.World) error { return nil }

func (c *c19) Gen(w *e.World, r *e.RNG) e.Step {
	if w.Height >= 2 && int64(r.Intn(100)) < 3*w.Cfg.Flag("w_export") {
		return e.Step{K: "export", N: []int64{int64(r.Intn(2))}}
	}
	return c.mixed.Gen(w, r)
}

func (c *c19) Exec(w *e.World, st *e.Step) *e.Violation {
	if st.K == "export" {
		if w.Height < 2 {
			return nil
		}
		return exportImportCheck(w, st.NArg(0) == 1)
	}
	return c.mixed.Exec(w, st)
}

func (c *c19) Final(w *e.World) *e.Violation {
	if v := c.mixed.Final(w); v != nil {
		return v
	}
	return exportImportCheck(w, true)
}

// ---------------------------------------------------------------------------

// normalise removes fields that are derived from the block height rather than
// stored state: the 09-localhost IBC client re-derives its latest height in
// every BeginBlock (SDK/ibc-go owned; analysed, not a Haqq module).
func normalise(v interface{}) {
	m, ok := v.(map[string]interface{})
	if !ok {
		return
	}
	// staking: unbonding ids are hook identifiers drawn from a counter that the
	// SDK's staking genesis does not carry (SDK-owned; analysed, see DESIGN §8)
	stripKeys(m["validators"], "unbonding_ids")
	stripKeys(m["unbonding_delegations"], "unbonding_id")
	stripKeys(m["redelegations"], "unbonding_id")
	cg, _ := m["client_genesis"].(map[string]interface{})
	cl, _ := cg["clients"].([]interface{})
	for _, c := range cl {
		cm, _ := c.(map[string]interface{})
		if cm["client_id"] == "09-localhost" {
			if cs, ok := cm["client_state"].(map[string]interface{}); ok {
				delete(cs, "latest_height")
			}
		}
	}
}

// stripKeys removes the named key from every object below v.
func stripKeys(v interface{}, key string) {
	switch x := v.(type) {
	case map[string]interface{}:
		delete(x, key)
		for _, c := range x {
			stripKeys(c, key)
		}
	case []interface{}:
		for _, c := range x {
			stripKeys(c, key)
		}
	}
}

func canon(raw json.RawMessage) (interface{}, string) {
	var v interface{}
	if err := json.Unmarshal(raw, &v); err != nil {
		return nil, string(raw)
	}
	normalise(v)
	b, _ := json.Marshal(v) // map keys sorted
	return v, string(b)
}

// firstDiff returns the JSON path of the first difference between a and b.
func firstDiff(path string, a, b interface{}) string {
	switch av := a.(type) {
	case map[string]interface{}:
		bv, ok := b.(map[string]interface{})
		if !ok {
			return path
		}
		keys := map[string]bool{}
		for k := range av {
			keys[k] = true
		}
		for k := range bv {
			keys[k] = true
		}
		ks := make([]string, 0, len(keys))
		for k := range keys {
			ks = append(ks, k)
		}
		sort.Strings(ks)
		for _, k := range ks {
			x, okx := av[k]
			y, oky := bv[k]
			if !okx || !oky {
				return path + "." + k
			}
			if d := firstDiff(path+"."+k, x, y); d != "" {
				return d
			}
		}
		return ""
	case []interface{}:
		bv, ok := b.([]interface{})
		if !ok {
			return path
		}
		if len(av) != len(bv) {
			return fmt.Sprintf("%s[len %d vs %d]", path, len(av), len(bv))
		}
		for i := range av {
			if d := firstDiff(fmt.Sprintf("%s[%d]", path, i), av[i], bv[i]); d != "" {
				return d
			}
		}
		return ""
	default:
		if fmt.Sprint(a) != fmt.Sprint(b) {
			lastDiffValues = fmt.Sprintf("%v vs %v", a, b)
			return path
		}
		return ""
	}
}

// lastDiffValues: the two values at the path firstDiff returned last (for the report only).
var lastDiffValues string

// genericPath strips array indices so that signatures do not depend on positions.
func genericPath(p string) string {
	var b strings.Builder
	skip := false
	for _, r := range p {
		if r == '[' {
			skip = true
			b.WriteString("[]")
			continue
		}
		if r == ']' {
			skip = false
			continue
		}
		if !skip {
			b.WriteRune(r)
		}
	}
	return b.String()
}

func compareExports(what string, a, b json.RawMessage) *e.Violation {
	var ma, mb map[string]json.RawMessage
	if json.Unmarshal(a, &ma) != nil || json.Unmarshal(b, &mb) != nil {
		return e.Violatef("export-import", "export-not-json", "%s: export is not a JSON object", what)
	}
	mods := map[string]bool{}
	for k := range ma {
		mods[k] = true
	}
	for k := range mb {
		mods[k] = true
	}
	for _, mod := range e.SortedKeys(mods) {
		va, sa := canon(ma[mod])
		vb, sb := canon(mb[mod])
		if sa != sb {
			d := firstDiff(mod, va, vb)
			return e.Violatef("export-import", "export-differs:"+what+":"+genericPath(d), "%s: section %s differs at %s (%s)", what, mod, d, trunc(lastDiffValues, 200))
		}
	}
	return nil
}

func exportOf(r *e.Replica) (json.RawMessage, []abciValidator, *exportMeta, error) {
	ex, err := r.App.ExportAppStateAndValidators(false, nil, nil)
	if err != nil {
		return nil, nil, nil, err
	}
	var vals []abciValidator
	for _, v := range ex.Validators {
		vals = append(vals, abciValidator{PubKey: v.PubKey.Bytes(), Power: v.Power})
	}
	return ex.AppState, vals, &exportMeta{Height: ex.Height}, nil
}

type abciValidator struct {
	PubKey []byte
	Power  int64
}
type exportMeta struct{ Height int64 }

// haqqQuerySet answers the Haqq-module queries the statement names, at the
// last committed state, as one digest per query (path -> digest).
func haqqQuerySet(w *e.World, r *e.Replica) map[string]string {
	out := map[string]string{}
	q := func(name, path string, data []byte) {
		res := r.App.Query(abci.RequestQuery{Path: path, Data: data})
		out[name] = fmt.Sprintf("%d|%x", res.Code, res.Value)
	}
	for _, p := range []string{
		"/ethermint.evm.v1.Query/Params", "/ethermint.feemarket.v1.Query/Params", "/ethermint.feemarket.v1.Query/BaseFee", "/ethermint.feemarket.v1.Query/BlockGas",
		"/evmos.erc20.v1.Query/TokenPairs", "/evmos.erc20.v1.Query/Params",
		"/haqq.coinomics.v1.Query/Params", "/haqq.coinomics.v1.Query/MaxSupply",
		"/haqq.liquidvesting.v1.Query/Denoms", "/haqq.liquidvesting.v1.Query/Params",
		"/haqq.ucdao.v1.Query/TotalBalance", "/haqq.ucdao.v1.Query/Holders", "/haqq.ucdao.v1.Query/Params",
		"/evmos.epochs.v1.Query/EpochInfos",
		"/cosmos.bank.v1beta1.Query/TotalSupply", "/cosmos.bank.v1beta1.Query/DenomsMetadata",
		"/cosmos.staking.v1beta1.Query/Pool", // (Validators carries SDK-internal unbonding ids, see normalise)
	} {
		q(p, p, nil)
	}
	// every pair must be found by denom and by address, enabled or not
	for _, pair := range w.App().Erc20Keeper.GetTokenPairs(w.CommittedCtx()) {
		for _, tok := range []string{pair.Denom, pair.Erc20Address} {
			tr := &erc20types.QueryTokenPairRequest{Token: tok}
			bz, _ := tr.Marshal()
			q("tokenpair:"+tok, "/evmos.erc20.v1.Query/TokenPair", bz)
		}
	}
	// contracts created by transactions (incl. accounts with storage but no code)
	created, _ := w.Ext["contracts"].([]common.Address)
	for _, c := range created {
		addr := c.Hex()
		cr := &evmtypes.QueryCodeRequest{Address: addr}
		bz, _ := cr.Marshal()
		q("code:"+addr, "/ethermint.evm.v1.Query/Code", bz)
		for i := 0; i < 4; i++ {
			sr := &evmtypes.QueryStorageRequest{Address: addr, Key: common.BigToHash(big.NewInt(int64(i))).Hex()}
			bz, _ = sr.Marshal()
			q(fmt.Sprintf("storage:%s:%d", addr, i), "/ethermint.evm.v1.Query/Storage", bz)
		}
	}
	// contracts deployed by token-pair registration: code and storage
	for _, pair := range w.App().Erc20Keeper.GetTokenPairs(w.CommittedCtx()) {
		addr := pair.Erc20Address
		cr := &evmtypes.QueryCodeRequest{Address: addr}
		bz, _ := cr.Marshal()
		q("code:"+addr, "/ethermint.evm.v1.Query/Code", bz)
		ar := &evmtypes.QueryAccountRequest{Address: addr}
		bz, _ = ar.Marshal()
		q("evmacct:"+addr, "/ethermint.evm.v1.Query/Account", bz)
		for i := 0; i < 6; i++ {
			sr := &evmtypes.QueryStorageRequest{Address: addr, Key: common.BigToHash(big.NewInt(int64(i))).Hex()}
			bz, _ = sr.Marshal()
			q(fmt.Sprintf("storage:%s:%d", addr, i), "/ethermint.evm.v1.Query/Storage", bz)
		}
	}
	for i := 0; i < len(w.Accts)+e.NExtra; i++ {
		a := w.Acct(i)
		ar := &evmtypes.QueryAccountRequest{Address: a.Eth.Hex()}
		bz, _ := ar.Marshal()
		q(fmt.Sprintf("evmacct:%d", i), "/ethermint.evm.v1.Query/Account", bz)
		br := &banktypes.QueryAllBalancesRequest{Address: a.Acc.String()}
		bz, _ = br.Marshal()
		q(fmt.Sprintf("balances:%d", i), "/cosmos.bank.v1beta1.Query/AllBalances", bz)
		sr := &banktypes.QuerySpendableBalancesRequest{Address: a.Acc.String()}
		bz, _ = sr.Marshal()
		q(fmt.Sprintf("spendable:%d", i), "/cosmos.bank.v1beta1.Query/SpendableBalances", bz)
		vr := &vestingtypes.QueryBalancesRequest{Address: a.Acc.String()}
		bz, _ = vr.Marshal()
		q(fmt.Sprintf("vesting:%d", i), "/haqq.vesting.v1.Query/Balances", bz)
	}
	return out
}

// exportImportCheck forks the node at the last committed boundary and runs
// the three comparisons. cont: also continue both for two blocks.
func exportImportCheck(w *e.World, cont bool) *e.Violation {
	if _, pending := w.App().UpgradeKeeper.GetUpgradePlan(w.CommittedCtx()); pending {
		// A scheduled software upgrade is state of the SDK's upgrade module, which has
		// no genesis section by design: the original would run the handler in one of
		// the next blocks and a chain started from the export would not.
		w.Stats.Probe("skipped_pending_upgrade_plan")
		return nil
	}
	w.Stats.Probe("export_import_compared")
	w.Stats.Oracle++
	A := w.Fork(0) // "export on a replica that was just restarted"
	e1, _, meta, err := exportOf(A)
	if err != nil {
		return e.Violatef("export-import", "export-fails", "export at height %d failed: %v", w.Height-1, err)
	}
	ex, _ := A.App.ExportAppStateAndValidators(false, nil, nil)
	if len(ex.Validators) == 0 {
		// every validator is jailed / unbonded: a real chain would have halted in
		// CometBFT (empty validator set); nothing to import
		w.Stats.Probe("skipped_no_bonded_validator")
		return nil
	}
	// fresh application from the export
	_ = meta
	B, err := w.ImportReplica(ex, true)
	if err != nil {
		return e.Violatef("export-import", "import-fails:"+classify(err.Error()), "InitChain from the export of height %d failed: %s", w.Height-1, trunc(err.Error(), 500))
	}
	e2, _, _, err := exportOf(B)
	if err != nil {
		return e.Violatef("export-import", "re-export-fails", "export of the imported state failed: %v", err)
	}
	if v := compareExports("re-export", e1, e2); v != nil {
		return v
	}
	w.Stats.State(fmt.Sprintf("sections=%d", strings.Count(string(e1), "\n  \"")))
	// A second import, positioned like a chain restarted from the export: its
	// first block is InitialHeight = the height the original executes next. Both
	// continue with the same two blocks; the query set is compared after the first
	// one (a query context needs a block header with a proposer to run the EVM,
	// see finding C20-002), the exports after the second.
	w.Stats.Probe("export_import_continued")
	B2, err := w.ImportReplica(ex, false)
	if err != nil {
		return e.Violatef("export-import", "import-fails:"+classify(err.Error()), "second InitChain failed: %s", trunc(err.Error(), 300))
	}
	B = B2
	for blk := int64(0); blk < 2; blk++ {
		ra := contBlock(w, A, w.Height+blk, blk)
		rb := contBlock(w, B, w.Height+blk, blk)
		if ra != rb {
			sig := "behaviour-differs-after-import"
			if strings.HasPrefix(rb, "panic") && !strings.HasPrefix(ra, "panic") {
				sig = "imported-chain-halts"
			}
			return e.Violatef("export-import", sig, "block %d after the export point: %s on the original vs %s on the imported application", blk+1, ra, rb)
		}
		if strings.HasPrefix(ra, "panic") {
			if os.Getenv("HAQQSIM_DEBUG") != "" {
				fmt.Fprintln(os.Stderr, "BOTH PANIC:", ra, "|", rb)
			}
			return nil // both halt identically: nothing more to compare
		}
		if blk == 0 {
			qa, qb := haqqQuerySet(w, A), haqqQuerySet(w, B)
			for _, k := range e.SortedKeys(qa) {
				if qa[k] != qb[k] {
					name := k
					if i := strings.Index(name, ":"); i > 0 {
						name = name[:i]
					}
					return e.Violatef("export-import", "query-differs-after-import:"+name, "query %s answers differently on the imported application (height %d)", k, w.Height)
				}
			}
			w.Stats.Probe("queries_compared")
		}
		if !cont {
			return nil
		}
	}
	e3, _, _, err1 := exportOf(A)
	e4, _, _, err2 := exportOf(B)
	if err1 != nil || err2 != nil {
		return e.Violatef("export-import", "export-fails-after-continue", "%v %v", err1, err2)
	}
	return compareExports("after-2-blocks", e3, e4)
}

func classify(s string) string {
	s = strings.ToLower(s)
	for _, k := range []string{"invariant", "validator", "nil pointer", "account", "supply", "balance", "vesting", "erc20", "evm", "liquid", "dao"} {
		if strings.Contains(s, k) {
			return k
		}
	}
	return "other"
}

// contBlock executes one block with a few plain transactions on a fork and
// returns the result codes.
func contBlock(w *e.World, r *e.Replica, height, k int64) (out string) {
	defer func() {
		// a chain halt (panic outside DeliverTx) is an outcome to compare, not a harness failure
		if x := recover(); x != nil {
			out = "panic: " + trunc(fmt.Sprint(x), 160)
		}
	}()
	return contBlockInner(w, r, height, k)
}

func contBlockInner(w *e.World, r *e.Replica, height, k int64) string {
	hdr := w.Header
	hdr.Height = height
	hdr.Time = w.Now.Add(time.Duration(5*(k+1)) * time.Second)
	hdr.AppHash = r.App.LastCommitID().Hash
	req := w.BlockReq
	req.Header = hdr
	req.ByzantineValidators = nil
	// only validators that staking still knows may appear in the commit info (see
	// engine.beginBlock); decided once on the original's committed state so that
	// both continuations get the same votes
	var votes []abci.VoteInfo
	cctx := w.CommittedCtx()
	for _, v := range req.LastCommitInfo.Votes {
		if _, ok := w.App().StakingKeeper.GetValidatorByConsAddr(cctx, sdk.ConsAddress(v.Validator.Address)); ok {
			votes = append(votes, v)
		}
	}
	req.LastCommitInfo = abci.CommitInfo{Votes: votes}
	r.DB.Phase = "begin"
	r.App.BeginBlock(req)
	var codes []string
	// transactions are built against the fork's own state
	for i := 0; i < len(w.Accts); i++ {
		a, b := w.Acct(i), w.Acct((i+1)%len(w.Accts))
		var msg sdk.Msg = banktypes.NewMsgSend(a.Acc, b.Acc, e.Native(e.BigS("1000")))
		if i%2 == 1 && len(w.Vals) > 0 {
			msg = stakingtypes.NewMsgDelegate(a.Acc, w.Vals[0].ValAddr, e.C(e.Denom, e.BigS("1000")))
		}
		bz, err := w.BuildCosmosTxOn(r, a, e.TxOpts{}, msg)
		if err != nil {
			codes = append(codes, "x")
			continue
		}
		r.DB.Phase = "deliver"
		res := r.App.DeliverTx(abci.RequestDeliverTx{Tx: bz})
		codes = append(codes, fmt.Sprint(res.Code))
	}
	r.DB.Phase = "end"
	r.App.EndBlock(abci.RequestEndBlock{Height: hdr.Height})
	r.DB.Phase = "commit"
	r.App.Commit()
	return strings.Join(codes, ",")
}

var _ = bytes.Equal
