package props

import (
	"fmt"
	"math/big"
	"sort"
	"strings"

	sdk "github.com/cosmos/cosmos-sdk/types"
	stakingtypes "github.com/cosmos/cosmos-sdk/x/staking/types"

	e "haqqsim/engine"
	"haqqsim/evmprog"
)

// actor = user account or FIC instance
type actorSnap struct {
	name     string
	addr     sdk.AccAddress
	bal      *big.Int
	deleg    map[int]*big.Int // validator index -> shares-equivalent tokens (truncated)
	shares   map[int]string   // exact shares (string) for change detection
	unbond   *big.Int
	redeleg  int
	withdraw string
	grants   map[string]string          // "grantee|msgType" -> limit ("unlimited" or integer) for grants where this actor is the granter
	allow    map[string]map[string]bool // same key -> validators the grant names (allow list), nil if it has none
	expiry   map[string]int64           // same key -> expiration (unix seconds, 0: none)
}

type evmSnap struct {
	supply *big.Int
	actors []*actorSnap
	byName map[string]*actorSnap
}

func evmActors(w *e.World) []struct {
	name string
	addr sdk.AccAddress
} {
	var out []struct {
		name string
		addr sdk.AccAddress
	}
	for _, i := range allIdx(w) {
		out = append(out, struct {
			name string
			addr sdk.AccAddress
		}{fmt.Sprintf("acct:%d", i), w.Acct(i).Acc})
	}
	for i, f := range ew(w).fics {
		out = append(out, struct {
			name string
			addr sdk.AccAddress
		}{fmt.Sprintf("fic:%d", i), sdk.AccAddress(f.Bytes())})
	}
	return out
}

func snapEVM(w *e.World) *evmSnap {
	ctx := w.Ctx()
	a := w.App()
	s := &evmSnap{supply: a.BankKeeper.GetSupply(ctx, e.Denom).Amount.BigInt(), byName: map[string]*actorSnap{}}
	actors := evmActors(w)
	for _, ac := range actors {
		as := &actorSnap{name: ac.name, addr: ac.addr, deleg: map[int]*big.Int{}, shares: map[int]string{}, unbond: new(big.Int), grants: map[string]string{}, allow: map[string]map[string]bool{}, expiry: map[string]int64{}}
		as.bal = a.BankKeeper.GetBalance(ctx, ac.addr, e.Denom).Amount.BigInt()
		for vi, v := range w.Vals {
			if d, ok := a.StakingKeeper.GetDelegation(ctx, ac.addr, v.ValAddr); ok {
				as.shares[vi] = d.Shares.String()
			}
			if u, ok := a.StakingKeeper.GetUnbondingDelegation(ctx, ac.addr, v.ValAddr); ok {
				for _, en := range u.Entries {
					as.unbond.Add(as.unbond, en.InitialBalance.BigInt())
				}
			}
		}
		as.redeleg = len(a.StakingKeeper.GetRedelegations(ctx, ac.addr, 100))
		as.withdraw = a.DistrKeeper.GetDelegatorWithdrawAddr(ctx, ac.addr).String()
		for _, gr := range actors {
			for _, url := range stakingMsgURLs {
				auth, exp := a.AuthzKeeper.GetAuthorization(ctx, gr.addr, ac.addr, url)
				if auth == nil {
					continue
				}
				if exp != nil {
					as.expiry[gr.name+"|"+url] = exp.Unix()
				}
				lim := "other"
				if sa, ok := auth.(*stakingtypes.StakeAuthorization); ok {
					lim = "unlimited"
					if sa.MaxTokens != nil {
						lim = sa.MaxTokens.Amount.String()
					}
					if al := sa.GetAllowList(); al != nil {
						set := map[string]bool{}
						for _, v := range al.Address {
							set[v] = true
						}
						as.allow[gr.name+"|"+url] = set
					}
				}
				as.grants[gr.name+"|"+url] = lim
			}
		}
		s.actors = append(s.actors, as)
		s.byName[as.name] = as
	}
	return s
}

func uniqSorted(xs []string) string {
	m := map[string]bool{}
	for _, x := range xs {
		m[x] = true
	}
	var out []string
	for x := range m {
		out = append(out, x)
	}
	sort.Strings(out)
	return strings.Join(out, "+")
}

// c02Check: an Ethereum transaction leaves the total supply unchanged; a tx
// that failed changes nothing but fee (zero here) and nonce.
func c02Check(w *e.World, st *e.Step, pr *Prog, pre, post *evmSnap, ff *frameFacts, res e.TxResult) *e.Violation {
	w.Stats.Oracle++
	w.Stats.Probe("supply_checked")
	valueAttached := pr != nil && e.BigS(pr.Value).Sign() > 0
	if valueAttached && len(ff.committedPC) > 0 {
		w.Stats.Probe("value_attached_with_precompile_call")
	}
	// facts for the signature: is a precompile spend named for the signer while the
	// signer's balance is dirty in the EVM journal (value attached)?
	signerName := fmt.Sprintf("acct:%d", st.A)
	var who []string
	for _, c := range ff.committedPCalls {
		rel := "other"
		switch {
		case c.pc.Who == signerName:
			rel = "signer"
		case c.pc.Who == fmt.Sprintf("fic:%d", c.caller):
			rel = "caller"
		}
		who = append(who, c.pc.PC+"."+c.pc.M+"/"+rel)
	}
	d := new(big.Int).Sub(post.supply, pre.supply)
	if d.Sign() != 0 {
		sign := "minted"
		if d.Sign() < 0 {
			sign = "burned"
		}
		root := "no-failed-frame-with-precompile-call"
		if ff.enclosedInFailed > 0 {
			root = "failed-frame-contains-precompile-call"
			who = nil
		} else {
			// M: accounts whose bank balance a committed precompile call moved although
			// they are not the caller (so the EVM's cached balance was not mirrored);
			// D: accounts whose balance is dirty in the EVM journal (value transfers).
			M, D := map[string]bool{}, map[string]bool{}
			nameOfAddr := map[string]string{}
			for _, a := range pre.actors {
				nameOfAddr[a.addr.String()] = a.name
			}
			for _, c := range ff.committedPCalls {
				caller := fmt.Sprintf("fic:%d", c.caller)
				if c.caller < 0 {
					caller = signerName
				}
				switch c.pc.M {
				case "delegate":
					if c.pc.Who != caller {
						M[c.pc.Who] = true
					}
				case "withdrawDelegatorRewards", "claimRewards", "withdrawValidatorCommission":
					if a := pre.byName[c.pc.Who]; a != nil {
						if wn := nameOfAddr[a.withdraw]; wn != caller {
							M[wn] = true
						}
					}
				}
			}
			if valueAttached {
				D[signerName] = true
			}
			if pr != nil {
				walkProg(pr.Nodes, pr.FIC, func(n *evmprog.Node, self int) {
					if e.BigS(n.Value).Sign() > 0 && (n.Kind == evmprog.OpCall || n.Kind == evmprog.OpCallCode) {
						D[n.Target] = true
						D[fmt.Sprintf("fic:%d", self)] = true
					}
				})
			}
			for x := range M {
				if D[x] {
					root = "balance-moved-by-precompile-for-non-caller-and-dirty-in-evm-journal"
					who = nil
				}
			}
		}
		return e.Violatef("evm-conservation", fmt.Sprintf("supply-changed-by-evm-tx:%s:%s:value-attached=%v:calls=%s", root, sign, valueAttached, uniqSorted(who)),
			"total supply changed by %s during an Ethereum tx by acct %d (code %d); committed precompile calls: %v; program: %s", d, st.A, res.Code, ff.committedPC, trunc(string(st.P), 700))
	}
	if res.Code != 0 {
		for i, a := range pre.actors {
			if a.bal.Cmp(post.actors[i].bal) != 0 {
				return e.Violatef("evm-conservation", "failed-tx-moved-funds", "tx failed with code %d but balance of %s changed %s -> %s", res.Code, a.name, a.bal, post.actors[i].bal)
			}
		}
	}
	return nil
}

// c04Check: non-interference, grant gate and allowance arithmetic.
func c04Check(w *e.World, st *e.Step, pr *Prog, direct *PCall, pre, post *evmSnap, ff *frameFacts, res e.TxResult, vmFailed bool) *e.Violation {
	w.Stats.Oracle++
	w.Stats.Probe("noninterference_checked")
	signer := fmt.Sprintf("acct:%d", st.A)
	// contracts that executed frames in this tx may move their own funds by plain EVM semantics
	inTree := map[string]bool{}
	if pr != nil {
		inTree[fmt.Sprintf("fic:%d", pr.FIC)] = true
		walkProg(pr.Nodes, pr.FIC, func(n *evmprog.Node, self int) {
			if strings.HasPrefix(n.Target, "fic:") {
				inTree[n.Target] = true
			}
		})
	}
	c05Suspect := false
	if pr != nil {
		// effects of calls inside failed frames are C05's finding, not double-reported here
		walkProg(pr.Nodes, pr.FIC, func(n *evmprog.Node, self int) {
			if n.Call != nil {
				c05Suspect = true
			}
		})
		c05Suspect = c05Suspect && (ff.innerFailed > 0 || vmFailed)
	}
	for i, a := range pre.actors {
		b := post.actors[i]
		if a.name == signer || ff.callers[a.name] {
			continue
		}
		changed := ""
		for vi := range w.Vals {
			if a.shares[vi] != b.shares[vi] {
				changed = fmt.Sprintf("delegation to validator %d: %s -> %s shares", vi, a.shares[vi], b.shares[vi])
			}
		}
		if a.unbond.Cmp(b.unbond) != 0 {
			changed = fmt.Sprintf("unbonding: %s -> %s", a.unbond, b.unbond)
		}
		if a.redeleg != b.redeleg {
			changed = "redelegations"
		}
		if a.withdraw != b.withdraw {
			changed = fmt.Sprintf("withdraw address: %s -> %s", a.withdraw, b.withdraw)
		}
		if fmt.Sprint(a.grants) != fmt.Sprint(b.grants) {
			changed = fmt.Sprintf("grants: %v -> %v", a.grants, b.grants)
		}
		if b.bal.Cmp(a.bal) < 0 && !inTree[a.name] {
			changed = fmt.Sprintf("balance decreased: %s -> %s", a.bal, b.bal)
		}
		if changed != "" {
			if c05Suspect {
				w.Stats.Probe("skipped_attributed_to_C05")
				return nil
			}
			return e.Violatef("precompile-authority", "third-party-state-changed:"+strings.SplitN(changed, ":", 2)[0]+":calls="+uniqSorted(ff.committedPC),
				"%s is neither the signer (%s) nor the immediate caller of a committed precompile call, yet its %s; committed calls %v; tx %s", a.name, signer, changed, ff.committedPC, trunc(string(st.P), 600))
		}
	}
	// grant gate + allowance arithmetic for staking spends made by contracts
	spent := map[string]*big.Int{} // "granter|grantee|url" -> amount
	typeOf := map[string]string{"delegate": stakingMsgURLs[0], "undelegate": stakingMsgURLs[1], "redelegate": stakingMsgURLs[2], "cancelUnbondingDelegation": stakingMsgURLs[3]}
	for _, c := range ff.committedPCalls {
		url, isSpend := typeOf[c.pc.M]
		if !isSpend || c.pc.PC != "staking" || c.caller < 0 {
			continue
		}
		caller := fmt.Sprintf("fic:%d", c.caller)
		w.Stats.Probe("grant_spent_by_contract")
		key := caller + "|" + url
		lim, ok := pre.byName[signer].grants[key]
		if !ok {
			if c05Suspect {
				w.Stats.Probe("skipped_attributed_to_C05")
				return nil
			}
			return e.Violatef("precompile-authority", "spend-without-grant:"+c.pc.M, "%s called staking.%s for %s (signer %s) without a grant from the signer for %s", caller, c.pc.M, c.pc.Who, signer, url)
		}
		// the grant names the validators it covers: the validator the message is
		// checked against (destination for a redelegation) must be one of them
		if al := pre.byName[signer].allow[key]; al != nil {
			vi := c.pc.Val
			if c.pc.M == "redelegate" {
				vi = abs(c.pc.Val2)
			}
			w.Stats.Probe("grant_validator_checked")
			if !al[valString(w, vi)] {
				if c05Suspect {
					w.Stats.Probe("skipped_attributed_to_C05")
					return nil
				}
				return e.Violatef("precompile-authority", "spend-for-validator-not-covered-by-grant:"+c.pc.M, "%s called staking.%s for signer %s on validator %d (%s), which the signer's %s grant (limit %s) does not name: %v", caller, c.pc.M, signer, vi, valString(w, vi), url, lim, keysOf(al))
			}
		}
		if lim != "unlimited" && lim != "other" {
			k := signer + "|" + key
			if spent[k] == nil {
				spent[k] = new(big.Int)
			}
			spent[k].Add(spent[k], e.BigS(c.pc.Amt))
			if spent[k].Cmp(e.BigS(lim)) > 0 {
				return e.Violatef("precompile-authority", "grant-overspent:"+c.pc.M, "%s spent %s of a grant limited to %s", caller, spent[k], lim)
			}
		}
	}
	if !c05Suspect {
		for k, amt := range spent {
			parts := strings.SplitN(k, "|", 2)
			preLim := e.BigS(pre.byName[parts[0]].grants[parts[1]])
			want := new(big.Int).Sub(preLim, amt)
			got, still := post.byName[parts[0]].grants[parts[1]]
			switch {
			case want.Sign() == 0 && still:
				return e.Violatef("precompile-authority", "exhausted-grant-not-deleted", "grant %s: limit %s fully spent but still present with %s", k, preLim, got)
			case want.Sign() > 0 && (!still || e.BigS(got).Cmp(want) != 0):
				return e.Violatef("precompile-authority", "allowance-not-reduced-by-amount-used", "grant %s: limit %s, spent %s, now %q (expected %s)", k, preLim, amt, got, want)
			}
			w.Stats.Probe("allowance_arithmetic_checked")
		}
	}
	// a grant is "live" until the expiry its granter approved: using (or adjusting) it must not move that
	if direct == nil || direct.M != "approve" {
		for _, a := range pre.actors {
			b := post.byName[a.name]
			for key, was := range a.expiry {
				if _, still := b.grants[key]; !still {
					continue
				}
				w.Stats.Probe("grant_expiry_checked")
				if now := b.expiry[key]; now != was {
					if c05Suspect {
						w.Stats.Probe("skipped_attributed_to_C05")
						return nil
					}
					return e.Violatef("precompile-authority", "grant-expiry-changed-by-use", "the grant %s of %s expired at %d before this transaction and at %d (0: never) after it; tx %s", key, a.name, was, now, trunc(string(st.P), 400))
				}
			}
		}
	}
	// approve / increase / decrease / revoke by a direct call
	if direct != nil && !vmFailed && res.Code == 0 && direct.PC == "staking" {
		for _, url := range direct.Methods {
			key := direct.To + "|" + url
			before, had := pre.byName[signer].grants[key]
			after, has := post.byName[signer].grants[key]
			amt := e.BigS(direct.Amt)
			unl := amt.BitLen() == 256
			var want string
			switch direct.M {
			case "approve":
				want = amt.String()
				if unl {
					want = "unlimited"
				}
				if amt.Sign() == 0 {
					want = "" // approving zero removes the grant
				}
			case "increaseAllowance":
				if !had || before == "unlimited" {
					continue
				}
				want = new(big.Int).Add(e.BigS(before), amt).String()
			case "decreaseAllowance":
				if !had || before == "unlimited" {
					continue
				}
				want = new(big.Int).Sub(e.BigS(before), amt).String()
				if e.BigS(want).Sign() == 0 {
					want = ""
				}
			case "revoke":
				want = ""
			default:
				continue
			}
			w.Stats.Probe("grant_lifecycle_checked")
			if direct.M == "decreaseAllowance" && want == "" && has && after == "0" {
				continue // decreasing to exactly zero may keep a grant that allows nothing
			}
			if (want == "") != !has || (has && want != after && !(unl && after == "unlimited")) {
				return e.Violatef("precompile-authority", "grant-lifecycle-wrong:"+direct.M, "%s by %s for %s: grant was %q, is %q, expected %q", direct.M, signer, key, before, after, want)
			}
		}
	}
	return nil
}

func keysOf(m map[string]bool) []string {
	var out []string
	for k := range m {
		out = append(out, k)
	}
	sort.Strings(out)
	return out
}
