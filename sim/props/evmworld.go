package props

import (
	"encoding/base64"
	"encoding/json"
	"fmt"
	"math/big"
	"os"
	"path/filepath"
	"strings"

	tmed "github.com/cometbft/cometbft/crypto/ed25519"
	sdk "github.com/cosmos/cosmos-sdk/types"
	banktypes "github.com/cosmos/cosmos-sdk/x/bank/types"
	stakingtypes "github.com/cosmos/cosmos-sdk/x/staking/types"
	"github.com/ethereum/go-ethereum/accounts/abi"
	"github.com/ethereum/go-ethereum/common"
	"github.com/ethereum/go-ethereum/crypto"

	e "haqqsim/engine"
	"haqqsim/evmprog"
)

// ---------------------------------------------------------------------------
// EVM world: FIC instances, precompile ABIs, symbolic calls

var (
	addrStaking = common.HexToAddress("0x0000000000000000000000000000000000000800")
	addrDistr   = common.HexToAddress("0x0000000000000000000000000000000000000801")
	addrICS20   = common.HexToAddress("0x0000000000000000000000000000000000000802")
	addrBank    = common.HexToAddress("0x0000000000000000000000000000000000000804")
)

var abiCache = map[string]abi.ABI{}

func loadABI(name string) abi.ABI {
	if a, ok := abiCache[name]; ok {
		return a
	}
	repo := os.Getenv("HAQQ_REPO")
	if repo == "" {
		repo = "/repo"
	}
	bz, err := os.ReadFile(filepath.Join(repo, "precompiles", name, "abi.json"))
	if err != nil {
		panic(err)
	}
	a, err := abi.JSON(strings.NewReader(string(bz)))
	if err != nil {
		panic(err)
	}
	abiCache[name] = a
	return a
}

// PCall is a symbolic precompile call.
type PCall struct {
	PC      string   `json:"pc"`            // staking | distribution | bank
	M       string   `json:"m"`             // method
	Who     string   `json:"who,omitempty"` // named account: "acct:N" | "fic:N"
	Val     int      `json:"val,omitempty"`
	Val2    int      `json:"val2,omitempty"`
	Amt     string   `json:"amt,omitempty"`
	To      string   `json:"to,omitempty"`      // withdraw address / grantee
	Methods []string `json:"methods,omitempty"` // approve & co: message type URLs
	Height  int64    `json:"h,omitempty"`
}

type evmWorld struct {
	fics     []common.Address
	deployer int
}

func ew(w *e.World) *evmWorld { return w.Ext["evm"].(*evmWorld) }

const nFIC = 3

// setupEVMWorld deploys the FIC instances, funds them, and gives every
// non-validator account a delegation so that rewards accrue.
func setupEVMWorld(w *e.World) error {
	m := &evmWorld{deployer: len(w.Accts) - 1}
	w.Ext["evm"] = m
	dep := w.Acct(m.deployer)
	// victims: extra FIC instances that programs may SELFDESTRUCT (C05 only)
	for i := 0; i < nFIC+int(w.Cfg.Flags["victims"]); i++ {
		nonce := w.EthNonce(dep.Eth)
		res, err := w.DoEth(dep, e.EthArgs{Type: 2, Data: evmprog.Deployer(evmprog.FIC()), Gas: 600_000})
		if err != nil || res.Code != 0 {
			return fmt.Errorf("deploy FIC %d failed: %v %s", i, err, res.Log)
		}
		if r, err := w.EthResponse(res); err != nil || r.Failed() {
			return fmt.Errorf("deploy FIC %d vm error", i)
		}
		m.fics = append(m.fics, crypto.CreateAddress(dep.Eth, nonce))
	}
	for i := range m.fics {
		to := m.fics[i]
		res, err := w.DoEth(dep, e.EthArgs{Type: 2, To: &to, Value: e.BigS("20000000000000000000"), Gas: 100_000})
		if err != nil || res.Code != 0 {
			return fmt.Errorf("fund FIC %d failed: %v %s", i, err, res.Log)
		}
	}
	for i := w.Cfg.NVals; i < len(w.Accts); i++ {
		a := w.Acct(i)
		v := w.Vals[i%len(w.Vals)]
		res, err := w.DoCosmos(a, e.TxOpts{}, stakingtypes.NewMsgDelegate(a.Acc, v.ValAddr, e.C(e.Denom, e.BigS("5000000000000000000"))))
		if err != nil || res.Code != 0 {
			return fmt.Errorf("setup delegate failed: %v %s", err, res.Log)
		}
	}
	// fic_staked: the FICs themselves hold stake (and so earn rewards): the
	// deployer grants each FIC a delegate allowance and has it delegate its own funds
	if w.Cfg.Flags["fic_staked"] > 0 {
		for i := range m.fics[:nFIC] {
			ap := &PCall{PC: "staking", M: "approve", To: fmt.Sprintf("fic:%d", i), Amt: "9000000000000000000", Methods: []string{stakingMsgURLs[0]}}
			data, _ := m.packPCall(w, ap)
			to := addrStaking
			if res, err := w.DoEth(dep, e.EthArgs{Type: 2, To: &to, Gas: 2_000_000, Data: data}); err != nil || res.Code != 0 {
				return fmt.Errorf("setup approve for FIC %d failed: %v %s", i, err, res.Log)
			}
			raw, _ := json.Marshal(&PCall{PC: "staking", M: "delegate", Who: fmt.Sprintf("fic:%d", i), Val: i % len(w.Vals), Amt: "5000000000000000000"})
			pr := &Prog{FIC: i, Gas: 3_000_000, Nodes: []*evmprog.Node{{Kind: evmprog.OpCall, Target: "pre:staking", Call: raw}}}
			code, err := evmprog.Encode(pr.Nodes, ficResolver{w, m})
			if err != nil {
				return fmt.Errorf("setup program for FIC %d: %v", i, err)
			}
			fic := m.fics[i]
			res, err := w.DoEth(dep, e.EthArgs{Type: 2, To: &fic, Gas: pr.Gas, Data: code})
			if err != nil || res.Code != 0 {
				return fmt.Errorf("setup delegate of FIC %d failed: %v %s", i, err, res.Log)
			}
			if r, err := w.EthResponse(res); err != nil || r.Failed() {
				return fmt.Errorf("setup delegate of FIC %d: vm error", i)
			}
		}
	}
	st := e.BlkStep(5000, nil)
	w.MustBlk(&st)
	w.MustBlk(&st)
	return nil
}

func (m *evmWorld) resolveAddr(w *e.World, s string) (common.Address, bool) {
	switch {
	case strings.HasPrefix(s, "fic:"):
		var i int
		fmt.Sscanf(s, "fic:%d", &i)
		if i < 0 || i >= len(m.fics) {
			return common.Address{}, false
		}
		return m.fics[i], true
	case strings.HasPrefix(s, "acct:"):
		var i int
		fmt.Sscanf(s, "acct:%d", &i)
		return w.Acct(i).Eth, true
	case s == "pre:staking":
		return addrStaking, true
	case s == "pre:distribution":
		return addrDistr, true
	case s == "pre:ics20":
		return addrICS20, true
	case s == "pre:bank":
		return addrBank, true
	case strings.HasPrefix(s, "0x"):
		return common.HexToAddress(s), true
	}
	return common.Address{}, false
}

func bech32Of(a common.Address) string { return sdk.AccAddress(a.Bytes()).String() }

// packPCall ABI-encodes a symbolic precompile call.
func (m *evmWorld) packPCall(w *e.World, c *PCall) ([]byte, bool) {
	who, _ := m.resolveAddr(w, c.Who)
	val := valString(w, c.Val)
	val2 := valString(w, abs(c.Val2))
	amt := e.BigS(c.Amt)
	var bz []byte
	var err error
	switch c.PC + "." + c.M {
	case "staking.delegate", "staking.undelegate":
		bz, err = loadABI("staking").Pack(c.M, who, val, amt)
	case "staking.redelegate":
		bz, err = loadABI("staking").Pack(c.M, who, val, val2, amt)
	case "staking.cancelUnbondingDelegation":
		bz, err = loadABI("staking").Pack(c.M, who, val, amt, big.NewInt(c.Height))
	case "staking.approve", "staking.increaseAllowance", "staking.decreaseAllowance":
		to, _ := m.resolveAddr(w, c.To)
		bz, err = loadABI("staking").Pack(c.M, to, amt, c.Methods)
	case "staking.revoke":
		to, _ := m.resolveAddr(w, c.To)
		bz, err = loadABI("staking").Pack(c.M, to, c.Methods)
	case "staking.createValidator":
		type descT struct{ Moniker, Identity, Website, SecurityContact, Details string }
		type commT struct{ Rate, MaxRate, MaxChangeRate *big.Int }
		pk := tmed.GenPrivKeyFromSecret(append([]byte("haqqsim-new-validator"), who.Bytes()...)).PubKey().Bytes()
		bz, err = loadABI("staking").Pack(c.M, descT{Moniker: "sim-" + c.Who}, commT{big.NewInt(100000000000000000), big.NewInt(200000000000000000), big.NewInt(10000000000000000)},
			big.NewInt(1), who, sdk.ValAddress(who.Bytes()).String(), base64.StdEncoding.EncodeToString(pk), amt)
	case "staking.delegation", "staking.unbondingDelegation":
		bz, err = loadABI("staking").Pack(c.M, who, val)
	case "distribution.withdrawDelegatorRewards":
		bz, err = loadABI("distribution").Pack(c.M, who, val)
	case "distribution.setWithdrawAddress":
		to, _ := m.resolveAddr(w, c.To)
		bz, err = loadABI("distribution").Pack(c.M, who, bech32Of(to))
	case "distribution.withdrawValidatorCommission":
		bz, err = loadABI("distribution").Pack(c.M, val)
	case "distribution.claimRewards":
		bz, err = loadABI("distribution").Pack(c.M, who, uint32(5))
	case "bank.balances":
		bz, err = loadABI("bank").Pack(c.M, who)
	case "bank.totalSupply":
		bz, err = loadABI("bank").Pack(c.M)
	default:
		return nil, false
	}
	return bz, err == nil
}

func abs(i int) int {
	if i < 0 {
		return -i
	}
	return i
}

type ficResolver struct {
	w *e.World
	m *evmWorld
}

func (r ficResolver) Address(t string) (common.Address, bool) { return r.m.resolveAddr(r.w, t) }
func (r ficResolver) CallData(n *evmprog.Node) ([]byte, bool) {
	if n.Call != nil {
		var c PCall
		if json.Unmarshal(n.Call, &c) != nil {
			return nil, false
		}
		return r.m.packPCall(r.w, &c)
	}
	if n.Data != "" {
		return common.FromHex(n.Data), true
	}
	return nil, false
}

// stateChanging reports whether a symbolic precompile call changes Cosmos state.
func (c *PCall) stateChanging() bool {
	switch c.M {
	case "delegation", "unbondingDelegation", "balances", "totalSupply", "allowance", "validator", "validators":
		return false
	}
	return true
}

var stakingMsgURLs = []string{"/cosmos.staking.v1beta1.MsgDelegate", "/cosmos.staking.v1beta1.MsgUndelegate", "/cosmos.staking.v1beta1.MsgBeginRedelegate", "/cosmos.staking.v1beta1.MsgCancelUnbondingDelegation"}

// genPCall draws a precompile call. signer: account index; self: the FIC index that will make the call (-1: EOA direct).
func genPCall(w *e.World, r *e.RNG, signer, self int) *PCall {
	who := fmt.Sprintf("acct:%d", signer)
	switch r.Weighted([]int{6, 3, 1, 1}) {
	case 1:
		if self >= 0 {
			who = fmt.Sprintf("fic:%d", self)
		}
	case 2:
		who = fmt.Sprintf("acct:%d", r.Intn(nAcc(w)))
	case 3:
		who = fmt.Sprintf("fic:%d", r.Intn(nFIC))
	}
	c := &PCall{Who: who, Val: r.Intn(len(w.Vals)), Val2: r.Intn(len(w.Vals))}
	if w.Cfg.Flags["jail_bias"] == 1 && r.Chance(0.5) {
		// aim at a jailed validator (grants made after the jailing do not name it)
		for vi, v := range w.Vals {
			if val, ok := w.App().StakingKeeper.GetValidator(w.Ctx(), v.ValAddr); ok && val.Jailed {
				c.Val, c.Val2 = vi, vi
			}
		}
	}
	amt := r.Amount(e.BigS("3000000000000000000"))
	if r.Chance(0.5) {
		amt = big.NewInt(r.Range(1, 1_000_000_000))
	}
	c.Amt = amt.String()
	switch r.Weighted([]int{6, 3, 2, 1, 4, 3, 1, 2, 2, 1}) {
	case 9:
		// the signer becomes a validator (once per account; later attempts fail)
		c.PC, c.M, c.Who = "staking", "createValidator", fmt.Sprintf("acct:%d", signer)
		c.Amt = r.Amount(e.BigS("2000000000000000000")).String()
	case 0:
		c.PC, c.M = "staking", "delegate"
	case 1:
		c.PC, c.M = "staking", "undelegate"
	case 2:
		c.PC, c.M = "staking", "redelegate"
	case 3:
		c.PC, c.M = "staking", "cancelUnbondingDelegation"
		c.Height = w.Height - r.Range(0, 3)
	case 4:
		c.PC, c.M = "distribution", "withdrawDelegatorRewards"
	case 5:
		c.PC, c.M = "distribution", "setWithdrawAddress"
		c.To = fmt.Sprintf("acct:%d", w.AnyAcct(r))
		if r.Chance(0.3) {
			c.To = fmt.Sprintf("fic:%d", r.Intn(nFIC))
		}
		if r.Chance(0.15) {
			// an address that may not receive funds (module accounts, precompile addresses)
			blocked := []common.Address{common.BytesToAddress(e.ModuleAddr("fee_collector").Bytes()), common.BytesToAddress(e.ModuleAddr("distribution").Bytes()),
				common.BytesToAddress(e.ModuleAddr(stakingtypes.BondedPoolName).Bytes()), addrStaking, addrDistr}
			c.To = blocked[r.Intn(len(blocked))].Hex()
		}
	case 6:
		c.PC, c.M = "distribution", "withdrawValidatorCommission"
	case 7:
		c.PC, c.M = "distribution", "claimRewards"
	default:
		c.PC, c.M = "staking", "delegation"
	}
	return c
}

// genProgram draws a call tree executed by FIC `self` for `signer`.
func genProgram(w *e.World, r *e.RNG, signer, self, depth int, budget *int) []*evmprog.Node {
	var prog []*evmprog.Node
	n := 1 + r.Intn(4)
	for i := 0; i < n && *budget > 0; i++ {
		*budget--
		switch r.Weighted([]int{3, 5, 1, 2, 1}) {
		case 0: // call another FIC with a sub-program
			if depth >= 3 {
				continue
			}
			if nv := int(w.Cfg.Flags["victims"]); nv > 0 && r.Chance(0.3) {
				prog = append(prog, victimCall(w, r, nFIC+r.Intn(nv)))
				continue
			}
			callee := r.Intn(nFIC)
			if w.Cfg.Flags["small_vals"] == 1 && self >= 0 && r.Chance(0.4) {
				callee = self // re-entrant: the callee writes the caller's own slots
			}
			node := &evmprog.Node{Kind: evmprog.OpCall, Target: fmt.Sprintf("fic:%d", callee), Catch: r.Chance(0.6)}
			if r.Chance(0.3) {
				node.Value = r.Amount(big.NewInt(1_000_000_000)).String()
			}
			if r.Chance(0.25) {
				node.Gas = uint32(r.Range(2000, 400000))
			}
			if r.Chance(0.1) {
				node.Kind = []int{evmprog.OpStaticCall, evmprog.OpDelegateCall, evmprog.OpCallCode}[r.Intn(3)]
				node.Value = ""
			}
			node.Sub = genProgram(w, r, signer, callee, depth+1, budget)
			if node.Sub == nil {
				node.Sub = []*evmprog.Node{}
			}
			prog = append(prog, node)
		case 1: // precompile call
			pc := genPCall(w, r, signer, self)
			raw, _ := json.Marshal(pc)
			node := &evmprog.Node{Kind: evmprog.OpCall, Target: "pre:" + pc.PC, Catch: r.Chance(0.6), Call: raw}
			if r.Chance(0.2) {
				node.Gas = uint32(r.Range(3000, 300000))
			}
			if !pc.stateChanging() && r.Chance(0.5) {
				node.Kind = evmprog.OpStaticCall
			}
			prog = append(prog, node)
		case 2: // value to an EOA
			if r.Chance(0.25) {
				// touch (zero value) or pay a module account: staking pools, distribution, fee collector
				mods := []string{stakingtypes.BondedPoolName, stakingtypes.NotBondedPoolName, "distribution", "fee_collector", "erc20"}
				node := &evmprog.Node{Kind: evmprog.OpCall, Target: common.BytesToAddress(e.ModuleAddr(mods[r.Intn(len(mods))]).Bytes()).Hex(), Catch: true}
				if r.Chance(0.5) {
					node.Value = r.Amount(big.NewInt(1_000_000_000)).String()
				}
				prog = append(prog, node)
				continue
			}
			prog = append(prog, &evmprog.Node{Kind: evmprog.OpCall, Target: fmt.Sprintf("acct:%d", w.AnyAcct(r)), Value: r.Amount(big.NewInt(1_000_000_000)).String(), Catch: true})
		case 3:
			if w.Cfg.Flags["small_vals"] == 1 {
				// few keys and values: frames overwrite and restore each other's (and the committed) values
				prog = append(prog, &evmprog.Node{Kind: evmprog.OpSStore, Key: uint64(r.Intn(2)), Val: uint64(r.Intn(3))})
			} else {
				prog = append(prog, &evmprog.Node{Kind: evmprog.OpSStore, Key: uint64(r.Intn(4)), Val: uint64(r.Range(0, 1000))})
			}
		default:
			prog = append(prog, &evmprog.Node{Kind: evmprog.OpLog, Key: uint64(r.Intn(200))})
		}
	}
	// the frame may fail after its work
	if depth > 0 && r.Chance(0.35) {
		prog = append(prog, &evmprog.Node{Kind: []int{evmprog.OpRevert, evmprog.OpRevert, evmprog.OpInvalid}[r.Intn(3)]})
	}
	return prog
}

// victimCall: a call into a disposable FIC that writes a little and then (mostly)
// self-destructs towards some account. No precompile or nested FIC calls inside,
// because a frame that ends in SELFDESTRUCT returns no trace.
func victimCall(w *e.World, r *e.RNG, victim int) *evmprog.Node {
	node := &evmprog.Node{Kind: evmprog.OpCall, Target: fmt.Sprintf("fic:%d", victim), Catch: r.Chance(0.7), Sub: []*evmprog.Node{}}
	for i := r.Intn(3); i > 0; i-- {
		if r.Chance(0.6) {
			node.Sub = append(node.Sub, &evmprog.Node{Kind: evmprog.OpSStore, Key: uint64(r.Intn(2)), Val: uint64(r.Intn(3))})
		} else {
			node.Sub = append(node.Sub, &evmprog.Node{Kind: evmprog.OpLog, Key: uint64(r.Intn(200))})
		}
	}
	if r.Chance(0.75) {
		node.Sub = append(node.Sub, &evmprog.Node{Kind: evmprog.OpSelfDestruct, Target: fmt.Sprintf("acct:%d", w.AnyAcct(r))})
	} else if r.Chance(0.4) {
		node.Sub = append(node.Sub, &evmprog.Node{Kind: evmprog.OpRevert})
	}
	return node
}

// Prog is the payload of a "prog" step.
type Prog struct {
	FIC   int             `json:"fic"`
	Value string          `json:"value,omitempty"`
	Gas   uint64          `json:"gas,omitempty"`
	Nodes []*evmprog.Node `json:"nodes"`
}

// walk visits every node with the FIC index executing it (-1 unknown).
func walkProg(nodes []*evmprog.Node, self int, f func(n *evmprog.Node, self int)) {
	for _, n := range nodes {
		f(n, self)
		if n.Sub != nil {
			callee := -1
			fmt.Sscanf(n.Target, "fic:%d", &callee)
			if n.Kind == evmprog.OpDelegateCall || n.Kind == evmprog.OpCallCode {
				callee = self // code of the callee runs in the caller's context
			}
			walkProg(n.Sub, callee, f)
		}
	}
}

// sendNative is a helper used by setups.
func sendNative(w *e.World, from, to int, amt string) {
	a, b := w.Acct(from), w.Acct(to)
	w.DoCosmos(a, e.TxOpts{}, banktypes.NewMsgSend(a.Acc, b.Acc, e.Native(e.BigS(amt))))
}
