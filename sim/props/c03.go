package props

import (
	"fmt"
	"math/big"

	sdkmath "cosmossdk.io/math"
	codectypes "github.com/cosmos/cosmos-sdk/codec/types"
	sdk "github.com/cosmos/cosmos-sdk/types"
	txtypes "github.com/cosmos/cosmos-sdk/types/tx"
	authtypes "github.com/cosmos/cosmos-sdk/x/auth/types"
	sdkvesting "github.com/cosmos/cosmos-sdk/x/auth/vesting/types"
	banktypes "github.com/cosmos/cosmos-sdk/x/bank/types"
	"github.com/ethereum/go-ethereum/common"
	ethtypes "github.com/ethereum/go-ethereum/core/types"

	e "haqqsim/engine"

	haqqtypes "github.com/haqq-network/haqq/types"
	evmtypes "github.com/haqq-network/haqq/x/evm/types"
	vestingtypes "github.com/haqq-network/haqq/x/vesting/types"
)

// C03 — only the key holder can authorise a transaction, once.
//
// The fault dimension is the network between client and chain: duplication
// (same block, later block, after a node restart), reordering (future
// sequence first), delay, corruption of exactly one signed field in flight
// (signature left as is), replay of a signature made for a sibling chain id,
// unprotected (pre-EIP-155) signatures; a byzantine proposer puts all of that
// straight into blocks (no CheckTx).
// Oracle: exactly-once / authenticity over the delivered history.
type c03 struct{}

func init() { register("C03", func() e.Profile { return &c03{} }) }

func (c03) ID() string { return "C03" }

var c03Kinds = []string{"eth0", "eth1", "eth2", "cosmos", "eip712", "eip712d"}

func (c03) Configure(r *e.RNG, tier string) e.Config {
	c := e.DefaultConfig()
	c.NVals = 1
	c.NAccts = int(r.Range(3, 5))
	c.NoBaseFee = r.Chance(0.3)
	c.MinGasPrice = []string{"0", "0", "1000"}[r.Intn(3)]
	for _, k := range c03Kinds {
		c.Flags["w_"+k] = r.Range(0, 4)
	}
	c.Flags["w_eth2"] += 1
	c.Flags["w_blk"] = r.Range(3, 6)
	c.Flags["w_crash"] = r.Range(0, 2)
	c.Flags["w_replay"] = r.Range(1, 4)
	c.Flags["w_vestconv"] = r.Range(0, 2)
	c.Flags["p_fault"] = r.Range(30, 60)
	return c
}

func (c03) Length(cfg e.Config, tier string) int {
	if tier == "thorough" {
		return 300
	}
	return 100
}

func (c03) Tier(tier string) (uint64, int64) {
	if tier == "thorough" {
		return 4000, 2400
	}
	return 192, 300
}

func (c03) MandatoryProbes() []string {
	return []string{"honest_accepted", "replay_rejected", "corrupted_rejected", "foreign_chain_rejected", "future_sequence_rejected"}
}

type c03Elem struct {
	id       int
	acct     int
	kind     string
	seq      uint64
	bytes    []byte
	accepted bool
	class    string // honest | xchain | unprotected
}

type c03Queued struct {
	elem  *c03Elem
	bytes []byte
	class string // honest | dup | corrupt:<f> | xchain | unprotected
	at    int64
}

type c03Model struct {
	elems    []*c03Elem
	queue    []c03Queued
	accepted map[int]uint64 // per account: number of sequence numbers consumed by accepted elements
	initial  map[int]uint64
}

func (c03) Setup(w *e.World) error {
	m := &c03Model{accepted: map[int]uint64{}, initial: map[int]uint64{}}
	for i := range w.Accts {
		_, s, _ := w.AccountNumSeq(w.Acct(i).Acc)
		m.initial[i] = s
	}
	w.Ext["c03"] = m
	return nil
}

var ethCorrupt = []string{"nonce", "price", "tip", "gas", "to", "value", "data", "access", "chainid", "v", "r", "s", "type"}
var cosmosCorrupt = []string{"amount", "recipient", "memo", "timeout", "fee", "gas", "payer", "granter", "sequence", "pubkey", "signmode", "sig", "extchain", "extpayer", "extsig", "extdrop", "extadd"}

func (c03) Gen(w *e.World, r *e.RNG) e.Step {
	f := w.Cfg.Flags
	weights := []int{int(f["w_blk"]), int(f["w_crash"]), int(f["w_replay"]), int(f["w_vestconv"])}
	for _, k := range c03Kinds {
		weights = append(weights, int(f["w_"+k]))
	}
	k := r.Weighted(weights)
	switch k {
	case 0:
		return e.BlkStep(r.Range(500, 6000), nil)
	case 1:
		if w.Height < 2 {
			return e.BlkStep(1000, nil)
		}
		return e.Step{K: "crash", A: 0}
	case 2:
		// the network re-delivers some transaction it has seen accepted long ago
		return e.Step{K: "replay", N: []int64{r.Range(0, 1<<30)}}
	case 3:
		// account-type change in between: a funder converts an account into a vesting account
		return e.Step{K: "vestconv", A: r.Intn(nAcc(w)), B: r.Intn(nAcc(w)), S: []string{r.Amount(big.NewInt(1_000_000)).String()}}
	}
	kind := c03Kinds[k-4]
	net := ""
	if int64(r.Intn(100)) < f["p_fault"] {
		switch r.Weighted([]int{3, 3, 2, 1, 6, 3, 2, 2}) {
		case 0:
			net = "dup"
		case 1:
			net = "dup_later"
		case 2:
			net = "delay"
		case 3:
			net = "drop"
		case 4:
			fields := cosmosCorrupt
			if kind[:3] == "eth" {
				fields = ethCorrupt
			}
			net = "corrupt:" + fields[r.Intn(len(fields))]
			if r.Chance(0.5) {
				net += ":first" // corrupted copy arrives before the original
			}
		case 5:
			net = "xchain"
		case 6:
			net = "future"
		default:
			net = "unprotected"
			if kind[:3] != "eth" {
				net = "xchain"
			}
		}
	}
	return e.Step{K: "tx", Op: kind, A: r.Intn(nAcc(w)), B: w.AnyAcct(r), S: []string{r.Amount(big.NewInt(1_000_000_000)).String()}, N: []int64{r.Range(1, 3)}, Net: net}
}

type c03FP struct {
	seq map[int]uint64
	bal map[int]string
	fc  string
}

func c03Fingerprint(w *e.World) c03FP {
	fp := c03FP{seq: map[int]uint64{}, bal: map[int]string{}}
	for i := 0; i < len(w.Accts)+e.NExtra; i++ {
		_, s, _ := w.AccountNumSeq(w.Acct(i).Acc)
		fp.seq[i] = s
		fp.bal[i] = w.Balance(w.Acct(i).Acc).String()
	}
	fp.fc = w.Balance(e.ModuleAddr(authtypes.FeeCollectorName)).String()
	return fp
}

func (a c03FP) diff(b c03FP) string {
	for i := range a.seq {
		if a.seq[i] != b.seq[i] {
			return fmt.Sprintf("sequence of acct %d: %d -> %d", i, a.seq[i], b.seq[i])
		}
		if a.bal[i] != b.bal[i] {
			return fmt.Sprintf("balance of acct %d: %s -> %s", i, a.bal[i], b.bal[i])
		}
	}
	if a.fc != b.fc {
		return fmt.Sprintf("fee collector: %s -> %s", a.fc, b.fc)
	}
	return ""
}

// sign creates an honestly signed element.
func (p c03) sign(w *e.World, m *c03Model, st *e.Step, class string, seqOff uint64) (*c03Elem, bool) {
	a, b := w.Acct(st.A), w.Acct(st.B)
	_, seq, ok := w.AccountNumSeq(a.Acc)
	if !ok {
		return nil, false
	}
	seq += seqOff
	amt := e.BigS(st.SArg(0))
	el := &c03Elem{id: len(m.elems), acct: st.A, kind: st.Op, seq: seq, class: class}
	var err error
	switch st.Op {
	case "eth0", "eth1", "eth2":
		to := common.Address(b.Eth)
		args := e.EthArgs{Type: int(st.Op[3] - '0'), To: &to, Value: amt, Gas: 60000, Nonce: &seq}
		if class == "xchain" {
			args.ChainID = new(big.Int).Add(w.EthChainID(), big.NewInt(1))
		}
		if class == "unprotected" {
			args.Type = 0
			args.Unprotected = true
		}
		el.bytes, _, err = w.BuildEthTx(a, args)
	default:
		o := e.TxOpts{Gas: 250_000, Seq: &seq, EIP712: st.Op == "eip712", EIP712Direct: st.Op == "eip712d", Memo: "m"}
		if class == "xchain" {
			o.ChainID = "haqq_121800-1"
		}
		el.bytes, err = w.BuildCosmosTx(a, o, banktypes.NewMsgSend(a.Acc, b.Acc, e.Native(amt)))
	}
	if err != nil {
		return nil, false
	}
	m.elems = append(m.elems, el)
	return el, true
}

// corruptEth rebuilds the tx with exactly one field changed and the original signature.
func corruptEth(w *e.World, bz []byte, field string) ([]byte, bool) {
	tx, err := w.TxConfig().TxDecoder()(bz)
	if err != nil || len(tx.GetMsgs()) != 1 {
		return nil, false
	}
	msg, ok := tx.GetMsgs()[0].(*evmtypes.MsgEthereumTx)
	if !ok {
		return nil, false
	}
	t := msg.AsTransaction()
	v, r, s := t.RawSignatureValues()
	nonce, gas, to, value, data := t.Nonce(), t.Gas(), t.To(), new(big.Int).Set(t.Value()), append([]byte{}, t.Data()...)
	price, tip, cap := t.GasPrice(), t.GasTipCap(), t.GasFeeCap()
	al := t.AccessList()
	chainID := t.ChainId()
	typ := t.Type()
	one := big.NewInt(1)
	switch field {
	case "nonce":
		nonce++
	case "price":
		price = new(big.Int).Add(price, one)
		cap = new(big.Int).Add(cap, one)
	case "tip":
		if typ != ethtypes.DynamicFeeTxType {
			return nil, false
		}
		tip = new(big.Int).Add(tip, one)
		cap = new(big.Int).Add(cap, one)
	case "gas":
		gas++
	case "to":
		x := *to
		x[19] ^= 1
		to = &x
	case "value":
		value.Add(value, one)
	case "data":
		data = append(data, 0x01)
	case "access":
		if typ == ethtypes.LegacyTxType {
			return nil, false
		}
		al = append(append(ethtypes.AccessList{}, al...), ethtypes.AccessTuple{Address: common.Address{1}})
	case "chainid":
		if typ == ethtypes.LegacyTxType {
			return nil, false
		}
		chainID = new(big.Int).Add(chainID, one)
	case "v":
		v = new(big.Int).Xor(v, one)
	case "r":
		r = new(big.Int).Add(r, one)
	case "s":
		s = new(big.Int).Add(s, one)
	case "type":
		// same fields, other envelope
		if typ == ethtypes.LegacyTxType {
			typ = ethtypes.AccessListTxType
			chainID = w.EthChainID()
			v = new(big.Int).And(new(big.Int).Sub(v, big.NewInt(35)), one)
		} else {
			typ = ethtypes.LegacyTxType
		}
	default:
		return nil, false
	}
	var inner ethtypes.TxData
	switch typ {
	case ethtypes.LegacyTxType:
		inner = &ethtypes.LegacyTx{Nonce: nonce, GasPrice: price, Gas: gas, To: to, Value: value, Data: data, V: v, R: r, S: s}
	case ethtypes.AccessListTxType:
		inner = &ethtypes.AccessListTx{ChainID: chainID, Nonce: nonce, GasPrice: price, Gas: gas, To: to, Value: value, Data: data, AccessList: al, V: v, R: r, S: s}
	default:
		inner = &ethtypes.DynamicFeeTx{ChainID: chainID, Nonce: nonce, GasTipCap: tip, GasFeeCap: cap, Gas: gas, To: to, Value: value, Data: data, AccessList: al, V: v, R: r, S: s}
	}
	nm := &evmtypes.MsgEthereumTx{}
	if err := nm.FromEthereumTx(ethtypes.NewTx(inner)); err != nil {
		return nil, false
	}
	out, err := w.WrapEthMsgs(nm)
	return out, err == nil
}

// corruptCosmos changes exactly one field of the encoded tx; signatures stay.
func corruptCosmos(w *e.World, bz []byte, field string, other *e.Account) ([]byte, bool) {
	var raw txtypes.TxRaw
	if err := raw.Unmarshal(bz); err != nil {
		return nil, false
	}
	var body txtypes.TxBody
	var ai txtypes.AuthInfo
	if body.Unmarshal(raw.BodyBytes) != nil || ai.Unmarshal(raw.AuthInfoBytes) != nil {
		return nil, false
	}
	cdc := w.Enc.Codec
	switch field {
	case "amount", "recipient":
		if len(body.Messages) == 0 {
			return nil, false
		}
		var ms banktypes.MsgSend
		if ms.Unmarshal(body.Messages[0].Value) != nil {
			return nil, false
		}
		if field == "amount" {
			ms.Amount = ms.Amount.Add(e.C(e.Denom, big.NewInt(1)))
		} else {
			if ms.ToAddress == other.Acc.String() {
				return nil, false
			}
			ms.ToAddress = other.Acc.String()
		}
		any, err := codectypes.NewAnyWithValue(&ms)
		if err != nil {
			return nil, false
		}
		body.Messages[0] = any
	case "memo":
		body.Memo += "x"
	case "timeout":
		body.TimeoutHeight = uint64(w.Height + 1000)
	case "fee":
		if ai.Fee == nil || len(ai.Fee.Amount) == 0 {
			return nil, false
		}
		amt := ai.Fee.Amount[0].Amount
		if !amt.IsPositive() {
			return nil, false
		}
		ai.Fee.Amount = sdk.NewCoins(sdk.NewCoin(ai.Fee.Amount[0].Denom, amt.SubRaw(1)))
	case "gas":
		ai.Fee.GasLimit++
	case "payer":
		ai.Fee.Payer = other.Acc.String()
	case "granter":
		ai.Fee.Granter = other.Acc.String()
	case "sequence":
		ai.SignerInfos[0].Sequence++
	case "pubkey":
		any, err := codectypes.NewAnyWithValue(other.Priv.PubKey())
		if err != nil {
			return nil, false
		}
		ai.SignerInfos[0].PublicKey = any
	case "signmode":
		mi := ai.SignerInfos[0].ModeInfo.GetSingle()
		if mi == nil {
			return nil, false
		}
		if mi.Mode == 1 {
			mi.Mode = 127
		} else {
			mi.Mode = 1
		}
	case "sig":
		if len(raw.Signatures) == 0 || len(raw.Signatures[0]) == 0 {
			return nil, false
		}
		raw.Signatures[0][3] ^= 0x40
	case "extadd":
		// attach a dynamic-fee extension option (it sets the priority fee actually charged)
		if len(body.ExtensionOptions) != 0 {
			return nil, false
		}
		any, err := codectypes.NewAnyWithValue(&haqqtypes.ExtensionOptionDynamicFeeTx{MaxPriorityPrice: sdkmath.NewInt(1)})
		if err != nil {
			return nil, false
		}
		body.ExtensionOptions = []*codectypes.Any{any}
	case "extchain", "extpayer", "extsig", "extdrop":
		if len(body.ExtensionOptions) == 0 {
			return nil, false
		}
		var ext haqqtypes.ExtensionOptionsWeb3Tx
		if ext.Unmarshal(body.ExtensionOptions[0].Value) != nil {
			return nil, false
		}
		switch field {
		case "extchain":
			ext.TypedDataChainID++
		case "extpayer":
			ext.FeePayer = other.Acc.String()
		case "extsig":
			ext.FeePayerSig[5] ^= 0x10
		default:
			body.ExtensionOptions = nil
		}
		if field != "extdrop" {
			any, err := codectypes.NewAnyWithValue(&ext)
			if err != nil {
				return nil, false
			}
			body.ExtensionOptions[0] = any
		}
	default:
		return nil, false
	}
	_ = cdc
	var err error
	if raw.BodyBytes, err = body.Marshal(); err != nil {
		return nil, false
	}
	if raw.AuthInfoBytes, err = ai.Marshal(); err != nil {
		return nil, false
	}
	out, err := raw.Marshal()
	return out, err == nil
}

// deliver hands bytes to DeliverTx and applies the oracle for its class.
func (p c03) deliver(w *e.World, m *c03Model, q c03Queued) *e.Violation {
	el := q.elem
	pre := c03Fingerprint(w)
	res := w.DeliverTx(q.bytes)
	post := c03Fingerprint(w)
	w.Stats.Oracle++
	d := pre.diff(post)
	class := q.class
	if class == "honest" && el.accepted {
		class = "dup"
	}
	desc := fmt.Sprintf("%s element #%d (%s by acct %d, signed sequence %d), delivered as %s at height %d: code %d log %q", el.class, el.id, el.kind, el.acct, el.seq, q.class, w.Height, res.Code, trunc(res.Log, 120))
	isEth := el.kind[:3] == "eth"
	switch {
	case class == "honest" && el.class == "honest":
		bumped := post.seq[el.acct] != pre.seq[el.acct]
		if !bumped {
			if d != "" || res.Code == 0 {
				return e.Violatef("authenticity", "effect-without-sequence-bump:"+el.kind, "%s: %s", desc, d)
			}
			if el.seq > pre.seq[el.acct] {
				w.Stats.Probe("future_sequence_rejected")
			}
			return nil
		}
		if pre.seq[el.acct] != el.seq {
			return e.Violatef("authenticity", "accepted-with-wrong-sequence:"+el.kind, "%s: account sequence was %d", desc, pre.seq[el.acct])
		}
		if post.seq[el.acct] != pre.seq[el.acct]+1 {
			return e.Violatef("authenticity", "sequence-bumped-by-more-than-one:"+el.kind, "%s: %d -> %d", desc, pre.seq[el.acct], post.seq[el.acct])
		}
		for i := range pre.seq {
			if i != el.acct && pre.seq[i] != post.seq[i] {
				return e.Violatef("authenticity", "other-account-sequence-changed:"+el.kind, "%s: %s", desc, d)
			}
		}
		el.accepted = true
		m.accepted[el.acct]++
		w.Stats.Probe("honest_accepted")
		w.Stats.State("accepted:" + el.kind)
		return nil
	case class == "dup":
		if res.Code == 0 || d != "" {
			return e.Violatef("exactly-once", "replayed-tx-had-effect:"+el.kind, "%s: %s", desc, d)
		}
		w.Stats.Probe("replay_rejected")
		w.Stats.State("replay:" + el.kind)
		return nil
	case len(class) >= 7 && class[:7] == "corrupt":
		if d != "" {
			return e.Violatef("authenticity", "corrupted-tx-had-effect:"+el.kind+":"+class[8:], "%s: %s", desc, d)
		}
		if res.Code == 0 && !isEth {
			return e.Violatef("authenticity", "corrupted-tx-accepted:"+el.kind+":"+class[8:], "%s", desc)
		}
		w.Stats.Probe("corrupted_rejected")
		w.Stats.State("corrupt:" + el.kind + ":" + class[8:])
		return nil
	default: // xchain, unprotected
		if res.Code == 0 || d != "" {
			return e.Violatef("authenticity", "foreign-signature-had-effect:"+el.kind+":"+el.class, "%s: %s", desc, d)
		}
		w.Stats.Probe("foreign_chain_rejected")
		w.Stats.State(el.class + ":" + el.kind)
		return nil
	}
}

func (p c03) Exec(w *e.World, st *e.Step) *e.Violation {
	m := w.Ext["c03"].(*c03Model)
	switch st.K {
	case "blk":
		w.MustBlk(st)
		// deliver what the network held back
		var keep []c03Queued
		q := m.queue
		m.queue = nil
		for _, x := range q {
			if x.at > w.Height {
				keep = append(keep, x)
				continue
			}
			w.Stats.Fault("net_late_delivery")
			if v := p.deliver(w, m, x); v != nil {
				return v
			}
		}
		m.queue = append(m.queue, keep...)
		return nil
	case "crash":
		v, _ := ExecCommon(w, st)
		return v
	case "replay":
		var acc []*c03Elem
		for _, el := range m.elems {
			if el.accepted {
				acc = append(acc, el)
			}
		}
		if len(acc) == 0 {
			return nil
		}
		el := acc[int(st.NArg(0))%len(acc)]
		w.Stats.Fault("net_replay_of_old_tx")
		return p.deliver(w, m, c03Queued{elem: el, bytes: el.bytes, class: "dup"})
	case "vestconv":
		if st.A >= len(w.Accts) || st.B >= len(w.Accts) || st.A == st.B {
			return nil
		}
		a, b := w.Acct(st.A), w.Acct(st.B)
		amt := e.BigS(st.SArg(0))
		if amt.Sign() <= 0 {
			return nil
		}
		lock := sdkvesting.Periods{{Length: 1000, Amount: e.Native(amt)}}
		pre := c03Fingerprint(w)
		bz, err := w.BuildCosmosTx(a, e.TxOpts{}, vestingtypes.NewMsgConvertIntoVestingAccount(a.Acc, b.Acc, w.Now, lock, nil, true, false, nil))
		if err != nil {
			return nil
		}
		el := &c03Elem{id: len(m.elems), acct: st.A, kind: "cosmos", seq: pre.seq[st.A], bytes: bz, class: "honest"}
		m.elems = append(m.elems, el)
		res := w.DeliverTx(bz)
		post := c03Fingerprint(w)
		if post.seq[st.A] != pre.seq[st.A] {
			el.accepted = true
			m.accepted[st.A]++
		}
		w.Stats.Op("vestconv", res.Code == 0)
		// nobody else's sequence may move (in particular not the converted account's)
		for i := range pre.seq {
			if i != st.A && pre.seq[i] != post.seq[i] {
				return e.Violatef("exactly-once", "sequence-changed-by-account-conversion", "converting acct %d into a vesting account changed its sequence %d -> %d", i, pre.seq[i], post.seq[i])
			}
		}
		return nil
	case "tx":
		if st.A >= len(w.Accts) {
			return nil
		}
		net := st.Net
		class := "honest"
		var seqOff uint64
		switch net {
		case "xchain":
			class = "xchain"
		case "unprotected":
			class = "unprotected"
			if st.Op[:3] != "eth" {
				class = "xchain"
			}
		case "future":
			seqOff = 1
		}
		el, ok := p.sign(w, m, st, class, seqOff)
		if !ok {
			return nil
		}
		now := c03Queued{elem: el, bytes: el.bytes, class: class}
		if net != "" {
			w.Stats.Fault("net_" + trimAfter(net, ":"))
		}
		switch {
		case net == "drop":
			return nil
		case net == "delay":
			now.at = w.Height + 1
			m.queue = append(m.queue, now)
			return nil
		case net == "dup":
			if v := p.deliver(w, m, now); v != nil {
				return v
			}
			return p.deliver(w, m, c03Queued{elem: el, bytes: el.bytes, class: "dup"})
		case net == "dup_later":
			if v := p.deliver(w, m, now); v != nil {
				return v
			}
			m.queue = append(m.queue, c03Queued{elem: el, bytes: el.bytes, class: "honest", at: w.Height + st.NArg(0)})
			return nil
		case net == "future":
			if v := p.deliver(w, m, now); v != nil {
				return v
			}
			m.queue = append(m.queue, c03Queued{elem: el, bytes: el.bytes, class: "honest", at: w.Height + 1})
			return nil
		case len(net) > 8 && net[:8] == "corrupt:":
			rest := net[8:]
			first := false
			if len(rest) > 6 && rest[len(rest)-6:] == ":first" {
				first = true
				rest = rest[:len(rest)-6]
			}
			var cbz []byte
			var ok bool
			if st.Op[:3] == "eth" {
				cbz, ok = corruptEth(w, el.bytes, rest)
			} else {
				cbz, ok = corruptCosmos(w, el.bytes, rest, w.Acct((st.A+1)%len(w.Accts)))
			}
			if rest == "signmode" && st.Op != "cosmos" {
				// The sign mode is not part of the EIP-712 typed data the key holder
				// signs (it only selects how the node re-derives that same content), so
				// it is not a "signed field" of these two routes.
				ok = false
			}
			if !ok || string(cbz) == string(el.bytes) {
				return p.deliver(w, m, now)
			}
			cq := c03Queued{elem: el, bytes: cbz, class: "corrupt:" + rest}
			if first {
				if v := p.deliver(w, m, cq); v != nil {
					return v
				}
				return p.deliver(w, m, now)
			}
			if v := p.deliver(w, m, now); v != nil {
				return v
			}
			return p.deliver(w, m, cq)
		default:
			return p.deliver(w, m, now)
		}
	}
	return nil
}

func trimAfter(s, sep string) string {
	for i := 0; i+len(sep) <= len(s); i++ {
		if s[i:i+len(sep)] == sep {
			return s[:i]
		}
	}
	return s
}

func (p c03) Final(w *e.World) *e.Violation {
	m := w.Ext["c03"].(*c03Model)
	for i := 0; i < 3; i++ {
		st := e.BlkStep(2000, nil)
		if v := p.Exec(w, &st); v != nil {
			return v
		}
	}
	// exactly-once over the whole history
	for i := range w.Accts {
		_, s, _ := w.AccountNumSeq(w.Acct(i).Acc)
		if s-m.initial[i] != m.accepted[i] {
			return e.Violatef("exactly-once", "final-sequence-mismatch", "acct %d: sequence advanced by %d but %d honestly signed elements were accepted", i, s-m.initial[i], m.accepted[i])
		}
	}
	return nil
}
