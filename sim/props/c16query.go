package props

import (
	"encoding/json"
	"fmt"
	"math/big"
	"reflect"
	"sort"
	"strings"

	sdk "github.com/cosmos/cosmos-sdk/types"
	distrkeeper "github.com/cosmos/cosmos-sdk/x/distribution/keeper"
	distrtypes "github.com/cosmos/cosmos-sdk/x/distribution/types"
	stakingtypes "github.com/cosmos/cosmos-sdk/x/staking/types"
	"github.com/ethereum/go-ethereum/common"

	e "haqqsim/engine"
)

// Read-only precompile methods beyond delegation / unbonding count / bank:
// the unpacked ABI output is brought into a canonical tree (field name -> value,
// integers as decimal strings) and compared with the same tree built from the
// module's own state. Fields the ABI flattens to a display string (consensus
// key, description) and SDK hook bookkeeping (unbonding ids) are left out.

type pageReq struct {
	Key        []byte
	Offset     uint64
	Limit      uint64
	CountTotal bool
	Reverse    bool
}

var c16Ignore = map[string]bool{"ConsensusPubkey": true, "Description": true, "UnbondingId": true, "UnbondingOnHoldRefCount": true, "PageResponse": true}

func qcanon(v reflect.Value) any {
	if !v.IsValid() {
		return nil
	}
	switch x := v.Interface().(type) {
	case *big.Int:
		if x == nil {
			return "0"
		}
		return x.String()
	case common.Address:
		return strings.ToLower(x.Hex())
	case []byte:
		return fmt.Sprintf("%x", x)
	}
	switch v.Kind() {
	case reflect.Ptr, reflect.Interface:
		if v.IsNil() {
			return nil
		}
		return qcanon(v.Elem())
	case reflect.Struct:
		m := map[string]any{}
		for i := 0; i < v.NumField(); i++ {
			name := v.Type().Field(i).Name
			if c16Ignore[name] {
				continue
			}
			m[name] = qcanon(v.Field(i))
		}
		return m
	case reflect.Slice, reflect.Array:
		out := []any{}
		for i := 0; i < v.Len(); i++ {
			out = append(out, qcanon(v.Index(i)))
		}
		return out
	case reflect.Bool:
		return v.Bool()
	case reflect.String:
		return v.String()
	case reflect.Int, reflect.Int8, reflect.Int16, reflect.Int32, reflect.Int64:
		return fmt.Sprint(v.Int())
	case reflect.Uint, reflect.Uint8, reflect.Uint16, reflect.Uint32, reflect.Uint64:
		return fmt.Sprint(v.Uint())
	}
	return fmt.Sprint(v.Interface())
}

func canonJSON(x any) string {
	b, _ := json.Marshal(x) // maps are marshalled with sorted keys
	return string(b)
}

func validatorTree(v stakingtypes.Validator) map[string]any {
	return map[string]any{
		"OperatorAddress":   v.OperatorAddress,
		"Jailed":            v.Jailed,
		"Status":            fmt.Sprint(int32(v.Status)),
		"Tokens":            v.Tokens.String(),
		"DelegatorShares":   v.DelegatorShares.BigInt().String(), // 18-decimal fixed point
		"UnbondingHeight":   fmt.Sprint(v.UnbondingHeight),
		"UnbondingTime":     fmt.Sprint(v.UnbondingTime.UTC().Unix()),
		"Commission":        v.Commission.Rate.BigInt().String(),
		"MinSelfDelegation": v.MinSelfDelegation.String(),
	}
}

func decCoinsTree(cs sdk.DecCoins) []any {
	out := []any{}
	for _, c := range cs {
		// the ABI carries the integer part together with the precision constant 18
		out = append(out, map[string]any{"Denom": c.Denom, "Amount": c.Amount.TruncateInt().String(), "Precision": "18"})
	}
	return out
}

// packQuery ABI-encodes the extended read-only calls.
func (m *evmWorld) packQuery(w *e.World, c *PCall) ([]byte, bool) {
	who, _ := m.resolveAddr(w, c.Who)
	val := valString(w, c.Val)
	val2 := valString(w, abs(c.Val2))
	var bz []byte
	var err error
	switch c.PC + "." + c.M {
	case "staking.validator":
		bz, err = loadABI("staking").Pack(c.M, val)
	case "staking.validators":
		bz, err = loadABI("staking").Pack(c.M, c.To, pageReq{Limit: 50})
	case "staking.redelegation":
		bz, err = loadABI("staking").Pack(c.M, who, val, val2)
	case "staking.allowance":
		to, _ := m.resolveAddr(w, c.To)
		bz, err = loadABI("staking").Pack(c.M, to, who, c.Methods[0])
	case "distribution.delegationRewards":
		bz, err = loadABI("distribution").Pack(c.M, who, val)
	case "distribution.delegationTotalRewards", "distribution.delegatorValidators", "distribution.delegatorWithdrawAddress":
		bz, err = loadABI("distribution").Pack(c.M, who)
	case "distribution.validatorCommission", "distribution.validatorOutstandingRewards":
		bz, err = loadABI("distribution").Pack(c.M, val)
	default:
		return m.packPCall(w, c)
	}
	return bz, err == nil
}

// expectedQuery builds the canonical tree of what the module itself holds; ok=false: not comparable here.
func expectedQuery(w *e.World, pc *PCall, acc sdk.AccAddress) (any, bool) {
	a := w.App()
	ctx := w.Ctx()
	val := valAddrOf(w, pc.Val)
	switch pc.PC + "." + pc.M {
	case "staking.validator":
		v, ok := a.StakingKeeper.GetValidator(ctx, val)
		if !ok {
			return nil, false
		}
		return []any{validatorTree(v)}, true
	case "staking.validators":
		list := []any{}
		for _, v := range a.StakingKeeper.GetAllValidators(ctx) {
			if pc.To == "" || v.Status.String() == pc.To {
				list = append(list, validatorTree(v))
			}
		}
		return []any{list}, true
	case "staking.unbondingDelegation":
		entries := []any{}
		tree := map[string]any{"DelegatorAddress": "", "ValidatorAddress": "", "Entries": entries}
		if u, ok := a.StakingKeeper.GetUnbondingDelegation(ctx, acc, val); ok {
			for _, en := range u.Entries {
				entries = append(entries, map[string]any{"CreationHeight": fmt.Sprint(en.CreationHeight), "CompletionTime": fmt.Sprint(en.CompletionTime.UTC().Unix()), "InitialBalance": en.InitialBalance.String(), "Balance": en.Balance.String()})
			}
			tree = map[string]any{"DelegatorAddress": u.DelegatorAddress, "ValidatorAddress": u.ValidatorAddress, "Entries": entries}
		}
		return []any{tree}, true
	case "staking.redelegation":
		red, ok := a.StakingKeeper.GetRedelegation(ctx, acc, val, valAddrOf(w, abs(pc.Val2)))
		if !ok {
			return nil, false
		}
		entries := []any{}
		for _, en := range red.Entries {
			entries = append(entries, map[string]any{"CreationHeight": fmt.Sprint(en.CreationHeight), "CompletionTime": fmt.Sprint(en.CompletionTime.UTC().Unix()), "InitialBalance": en.InitialBalance.String(), "SharesDst": en.SharesDst.BigInt().String()})
		}
		return []any{map[string]any{"DelegatorAddress": red.DelegatorAddress, "ValidatorSrcAddress": red.ValidatorSrcAddress, "ValidatorDstAddress": red.ValidatorDstAddress, "Entries": entries}}, true
	case "staking.allowance":
		to, _ := ew(w).resolveAddr(w, pc.To)
		auth, _ := a.AuthzKeeper.GetAuthorization(ctx, to.Bytes(), acc, pc.Methods[0])
		sa, ok := auth.(*stakingtypes.StakeAuthorization)
		if !ok || sa == nil {
			return []any{"0"}, true
		}
		if sa.MaxTokens == nil {
			return []any{new(big.Int).Sub(new(big.Int).Lsh(big.NewInt(1), 256), big.NewInt(1)).String()}, true
		}
		return []any{sa.MaxTokens.Amount.String()}, true
	case "distribution.delegationRewards":
		q := distrkeeper.NewQuerier(a.DistrKeeper)
		res, err := q.DelegationRewards(sdk.WrapSDKContext(ctx), &distrtypes.QueryDelegationRewardsRequest{DelegatorAddress: acc.String(), ValidatorAddress: val.String()})
		if err != nil {
			return nil, false
		}
		return []any{decCoinsTree(res.Rewards)}, true
	case "distribution.delegationTotalRewards":
		q := distrkeeper.NewQuerier(a.DistrKeeper)
		res, err := q.DelegationTotalRewards(sdk.WrapSDKContext(ctx), &distrtypes.QueryDelegationTotalRewardsRequest{DelegatorAddress: acc.String()})
		if err != nil {
			return nil, false
		}
		per := []any{}
		for _, r := range res.Rewards {
			per = append(per, map[string]any{"ValidatorAddress": r.ValidatorAddress, "Reward": decCoinsTree(r.Reward)})
		}
		return []any{per, decCoinsTree(res.Total)}, true
	case "distribution.delegatorValidators":
		vals := []any{}
		a.StakingKeeper.IterateDelegations(ctx, acc, func(_ int64, d stakingtypes.DelegationI) bool {
			vals = append(vals, d.GetValidatorAddr().String())
			return false
		})
		return []any{vals}, true
	case "distribution.delegatorWithdrawAddress":
		return []any{a.DistrKeeper.GetDelegatorWithdrawAddr(ctx, acc).String()}, true
	case "distribution.validatorCommission":
		return []any{decCoinsTree(a.DistrKeeper.GetValidatorAccumulatedCommission(ctx, val).Commission)}, true
	case "distribution.validatorOutstandingRewards":
		return []any{decCoinsTree(a.DistrKeeper.GetValidatorOutstandingRewards(ctx, val).Rewards)}, true
	}
	return nil, false
}

// sortTree orders lists whose order carries no meaning (validator lists) by their JSON form.
func sortTree(x any) any {
	switch t := x.(type) {
	case []any:
		for i := range t {
			t[i] = sortTree(t[i])
		}
		allMaps := len(t) > 1
		for _, el := range t {
			if _, ok := el.(map[string]any); !ok {
				if _, ok := el.(string); !ok {
					allMaps = false
				}
			}
		}
		if allMaps {
			sort.SliceStable(t, func(i, j int) bool { return canonJSON(t[i]) < canonJSON(t[j]) })
		}
		return t
	case map[string]any:
		for k := range t {
			if k != "Entries" { // entry order is chronological and meaningful
				t[k] = sortTree(t[k])
			}
		}
		return t
	}
	return x
}

// compareQueryTree: generic comparison for the extended query set.
func compareQueryTree(w *e.World, pc *PCall, ret []byte, acc sdk.AccAddress) *e.Violation {
	want, ok := expectedQuery(w, pc, acc)
	if !ok {
		return nil
	}
	out, err := loadABI(pc.PC).Unpack(pc.M, ret)
	if err != nil {
		return e.Violatef("native-equivalence", "query-undecodable:"+pc.PC+"."+pc.M, "%v", err)
	}
	got := []any{}
	for i, o := range out {
		if i < len(want.([]any)) { // trailing page responses are not compared
			got = append(got, qcanon(reflect.ValueOf(o)))
		}
	}
	g, x := canonJSON(sortTree(any(got))), canonJSON(sortTree(want))
	w.Stats.Probe("query_tree_compared")
	w.Stats.State("query:" + pc.PC + "." + pc.M)
	if g != x {
		return e.Violatef("native-equivalence", "query-differs:"+pc.PC+"."+pc.M, "%s.%s(%s, val %d, %q): precompile reports %s, the module holds %s", pc.PC, pc.M, pc.Who, pc.Val, pc.To, trunc(g, 900), trunc(x, 900))
	}
	return nil
}
