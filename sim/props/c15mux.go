package props

import (
	e "haqqsim/engine"
)

// C15 runs two kinds of histories under the same oracle (every invariant
// registered with the crisis keeper, evaluated after every block): the mixed
// Cosmos/EVM traffic of mixed.go, and the contract programs of the EVM profile
// (call trees that touch module accounts, call precompiles, attach value, fail
// and are caught), which the quantifier's "EVM/precompile operations" needs.
type c15mux struct {
	mixed *mixed
	evm   *evmprof
}

func newC15() e.Profile { return &c15mux{mixed: &mixed{"C15"}, evm: &evmprof{"C15"}} }

func (c15mux) ID() string { return "C15" }

func c15evm(cfg e.Config) bool { return cfg.Flags["evm_programs"] == 1 }

func (m *c15mux) Configure(r *e.RNG, tier string) e.Config {
	if r.Chance(0.3) {
		c := m.evm.Configure(r, tier)
		c.Flags["evm_programs"] = 1
		delete(c.Flags, "no_precompile") // this variant is about precompile effects on module accounts
		return c
	}
	return m.mixed.Configure(r, tier)
}

func (m *c15mux) Length(cfg e.Config, tier string) int {
	if c15evm(cfg) {
		return m.evm.Length(cfg, tier)
	}
	return m.mixed.Length(cfg, tier)
}

func (m *c15mux) Tier(tier string) (uint64, int64) { return m.mixed.Tier(tier) }

func (m *c15mux) MandatoryProbes() []string {
	return append(m.mixed.MandatoryProbes(), m.evm.MandatoryProbes()...)
}

func (m *c15mux) Setup(w *e.World) error {
	if c15evm(w.Cfg) {
		return m.evm.Setup(w)
	}
	return m.mixed.Setup(w)
}

func (m *c15mux) Gen(w *e.World, r *e.RNG) e.Step {
	if c15evm(w.Cfg) {
		return m.evm.Gen(w, r)
	}
	return m.mixed.Gen(w, r)
}

func (m *c15mux) Exec(w *e.World, st *e.Step) *e.Violation {
	if c15evm(w.Cfg) {
		return m.evm.Exec(w, st)
	}
	return m.mixed.Exec(w, st)
}

func (m *c15mux) Final(w *e.World) *e.Violation {
	if c15evm(w.Cfg) {
		return m.evm.Final(w)
	}
	return m.mixed.Final(w)
}
