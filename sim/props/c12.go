package props

import (
	sdkmath "cosmossdk.io/math"
	"fmt"
	"math/big"
	"sort"

	sdk "github.com/cosmos/cosmos-sdk/types"
	banktypes "github.com/cosmos/cosmos-sdk/x/bank/types"

	e "haqqsim/engine"

	ucdaotypes "github.com/haqq-network/haqq/x/ucdao/types"
)

// C12 — UC DAO ledger: shares always add up to the pooled funds.
//
// World: accounts fund the DAO (allowed and disallowed denominations, several
// coins at once) and transfer ownership (full / ratio / amount) between any pair
// of accounts including sender = recipient, interleaved with bank sends, block
// boundaries, clock jumps and replica restarts.
// Oracle (after every tx): per denom  Σ holders = total = bank(module); holder
// index = accounts with non-zero balance; per message the exact delta.
type c12 struct{}

func init() { register("C12", func() e.Profile { return &c12{} }) }

func (c12) ID() string { return "C12" }

var c12Denoms = []string{e.Denom, "aLIQUID3", "aLIQUID11", "utest"}

func (c12) Configure(r *e.RNG, tier string) e.Config {
	c := e.DefaultConfig()
	c.NVals = 1
	c.NAccts = int(r.Range(3, 6))
	c.Replicas = 1
	c.ExtraDenoms = []string{"aLIQUID3", "aLIQUID11", "utest"}
	c.NoBaseFee = r.Chance(0.5)
	// swarm: which op kinds are enabled and how heavy
	c.Flags["w_fund"] = r.Range(1, 6)
	c.Flags["w_xfer_all"] = r.Range(0, 3)
	c.Flags["w_xfer_ratio"] = r.Range(0, 4)
	c.Flags["w_xfer_amt"] = r.Range(0, 4)
	c.Flags["w_send"] = r.Range(0, 2)
	c.Flags["w_blk"] = r.Range(1, 3)
	c.Flags["w_crash"] = r.Range(0, 1)
	// 1/3 of the runs allow sender = recipient (the rest cannot trigger that class,
	// so a finding there cannot mask other violations)
	c.Flags["self"] = 0
	if r.Chance(0.34) {
		c.Flags["self"] = 1
	}
	return c
}

func (c12) Length(cfg e.Config, tier string) int {
	if tier == "thorough" {
		return 120
	}
	return 40
}

func (c12) Setup(w *e.World) error { return nil }

func (c12) Gen(w *e.World, r *e.RNG) e.Step {
	f := w.Cfg.Flags
	k := r.Weighted([]int{int(f["w_fund"]), int(f["w_xfer_all"]), int(f["w_xfer_ratio"]), int(f["w_xfer_amt"]), int(f["w_send"]), int(f["w_blk"]), int(f["w_crash"])})
	n := len(w.Accts)
	a := r.Intn(n)
	b := r.Intn(n)
	if f["self"] == 0 {
		for b == a {
			b = r.Intn(n)
		}
	} else if r.Chance(0.3) {
		b = a
	}
	dao := daoState(w)
	coins := func(max map[string]*big.Int) []string {
		var s []string
		nd := 1 + r.Weighted([]int{6, 3, 1})
		used := map[string]bool{}
		for i := 0; i < nd; i++ {
			d := c12Denoms[r.Intn(len(c12Denoms))]
			if used[d] {
				continue
			}
			used[d] = true
			s = append(s, d, r.Amount(max[d]).String())
		}
		return s
	}
	switch k {
	case 0:
		return e.Step{K: "tx", Op: "fund", A: a, S: coins(nil)}
	case 1:
		return e.Step{K: "tx", Op: "xfer_all", A: a, B: b}
	case 2:
		ratios := []string{"1", "0.5", "0.000000000000000001", "0.333333333333333333", "0.999999999999999999", "0.1", "0.75"}
		return e.Step{K: "tx", Op: "xfer_ratio", A: a, B: b, S: []string{ratios[r.Intn(len(ratios))]}}
	case 3:
		max := map[string]*big.Int{}
		for d, v := range dao.bal[w.Accts[a].Acc.String()] {
			max[d] = v
		}
		st := e.Step{K: "tx", Op: "xfer_amt", A: a, B: b, S: coins(max)}
		if r.Chance(0.12) && len(st.S) >= 2 {
			// a hand-built coin list: the same denomination twice, unsorted, or a zero entry
			st.N = []int64{1}
			switch r.Intn(3) {
			case 0:
				st.S = append(st.S, st.S[0], r.Amount(max[st.S[0]]).String())
			case 1:
				st.S = append([]string{"zzz", "1"}, st.S...)
			default:
				st.S = append(st.S, c12Denoms[r.Intn(len(c12Denoms))], "0")
			}
		}
		return st
	case 4:
		return e.Step{K: "tx", Op: "send", A: a, B: b, S: []string{e.Denom, r.Amount(nil).String()}}
	case 5:
		return e.BlkStep(ClockDt(r), nil)
	default:
		if w.Height < 2 {
			return e.BlkStep(1000, nil)
		}
		return e.Step{K: "crash", A: 0}
	}
}

type daoSnap struct {
	bal     map[string]map[string]*big.Int // addr -> denom -> amount
	total   map[string]*big.Int
	module  map[string]*big.Int
	holders []string
}

func daoState(w *e.World) daoSnap {
	ctx := w.Ctx()
	k := w.App().DaoKeeper
	s := daoSnap{bal: map[string]map[string]*big.Int{}, total: map[string]*big.Int{}, module: map[string]*big.Int{}}
	k.IterateAllBalances(ctx, func(a sdk.AccAddress, c sdk.Coin) bool {
		m := s.bal[a.String()]
		if m == nil {
			m = map[string]*big.Int{}
			s.bal[a.String()] = m
		}
		m[c.Denom] = c.Amount.BigInt()
		return false
	})
	for _, c := range k.GetTotalBalance(ctx) {
		s.total[c.Denom] = c.Amount.BigInt()
	}
	for _, c := range w.App().BankKeeper.GetAllBalances(ctx, e.ModuleAddr(ucdaotypes.ModuleName)) {
		s.module[c.Denom] = c.Amount.BigInt()
	}
	res, err := k.Holders(sdk.WrapSDKContext(ctx), &ucdaotypes.QueryHoldersRequest{})
	if err == nil {
		for _, h := range res.Balances {
			s.holders = append(s.holders, h.Address)
		}
		sort.Strings(s.holders)
	}
	return s
}

func parseCoins(s []string) (sdk.Coins, bool) {
	var cs sdk.Coins
	for i := 0; i+1 < len(s); i += 2 {
		cs = append(cs, e.C(s[i], e.BigS(s[i+1])))
	}
	cs = cs.Sort()
	return cs, len(cs) > 0
}

func get(m map[string]*big.Int, k string) *big.Int {
	if v, ok := m[k]; ok {
		return v
	}
	return new(big.Int)
}

func (p c12) Exec(w *e.World, st *e.Step) *e.Violation {
	if v, ok := ExecCommon(w, st); ok {
		if v == nil {
			return c12Ledger(w, st.K, false)
		}
		return v
	}
	if st.K != "tx" || st.A >= len(w.Accts) || st.B >= len(w.Accts) {
		return nil
	}
	a, b := w.Accts[st.A], w.Accts[st.B]
	pre := daoState(w)
	var msg sdk.Msg
	moved := map[string]*big.Int{} // stated amount moved from a to b
	funded := map[string]*big.Int{}
	switch st.Op {
	case "fund":
		cs, ok := parseCoins(st.S)
		if !ok {
			return nil
		}
		msg = &ucdaotypes.MsgFund{Amount: cs, Depositor: a.Acc.String()}
		for _, c := range cs {
			funded[c.Denom] = c.Amount.BigInt()
		}
	case "xfer_all":
		msg = ucdaotypes.NewMsgTransferOwnership(a.Acc, b.Acc)
		for d, v := range pre.bal[a.Acc.String()] {
			moved[d] = v
		}
	case "xfer_ratio":
		ratio, err := sdk.NewDecFromStr(st.SArg(0))
		if err != nil {
			return nil
		}
		msg = ucdaotypes.NewMsgTransferOwnershipWithRatio(a.Acc, b.Acc, ratio)
		// stated amount: floor(balance × ratio), computed independently with big.Int
		num := ratio.BigInt() // ratio × 1e18
		for d, v := range pre.bal[a.Acc.String()] {
			x := new(big.Int).Mul(v, num)
			x.Quo(x, new(big.Int).Exp(big.NewInt(10), big.NewInt(18), nil))
			moved[d] = x
		}
	case "xfer_amt":
		cs, ok := parseCoins(st.S)
		if !ok {
			return nil
		}
		if st.NArg(0) == 1 {
			// as sent by a client that does not normalise: order and duplicates are kept
			cs = nil
			for i := 0; i+1 < len(st.S); i += 2 {
				if sdk.ValidateDenom(st.S[i]) == nil {
					cs = append(cs, sdk.Coin{Denom: st.S[i], Amount: sdkmath.NewIntFromBigInt(e.BigS(st.S[i+1]))})
				}
			}
			w.Stats.Probe("malformed_coin_list_sent")
		}
		msg = ucdaotypes.NewMsgTransferOwnershipWithAmount(a.Acc, b.Acc, cs)
		for _, c := range cs {
			moved[c.Denom] = c.Amount.BigInt()
		}
	case "send":
		msg = banktypes.NewMsgSend(a.Acc, b.Acc, sdk.NewCoins(e.C(st.SArg(0), e.BigS(st.SArg(1)))))
	default:
		return nil
	}
	res, err := w.DoCosmos(a, e.TxOpts{}, msg)
	if err != nil {
		return nil
	}
	w.Stats.Op(st.Op, res.Code == 0)
	self := st.A == st.B
	if self && res.Code == 0 && st.Op != "fund" && st.Op != "send" {
		w.Stats.Probe("self_transfer_succeeded")
	}
	post := daoState(w)
	w.Stats.Oracle++
	sigTail := fmt.Sprintf(":op=%s:self=%v", st.Op, self && st.Op != "fund" && st.Op != "send")
	// expected ledger
	exp := map[string]map[string]*big.Int{}
	for addr, m := range pre.bal {
		exp[addr] = map[string]*big.Int{}
		for d, v := range m {
			exp[addr][d] = new(big.Int).Set(v)
		}
	}
	add := func(addr, d string, v *big.Int) {
		if exp[addr] == nil {
			exp[addr] = map[string]*big.Int{}
		}
		exp[addr][d] = new(big.Int).Add(get(exp[addr], d), v)
	}
	if res.Code == 0 {
		for d, v := range funded {
			add(a.Acc.String(), d, v)
		}
		for d, v := range moved {
			add(a.Acc.String(), d, new(big.Int).Neg(v))
			add(b.Acc.String(), d, v)
		}
		if len(moved) > 0 {
			w.Stats.Probe("transfer_succeeded")
		}
	}
	// compare every (addr, denom)
	addrs := map[string]bool{}
	for k := range exp {
		addrs[k] = true
	}
	for k := range post.bal {
		addrs[k] = true
	}
	for _, addr := range e.SortedKeys(addrs) {
		for _, d := range c12Denoms {
			if get(exp[addr], d).Cmp(get(post.bal[addr], d)) != 0 {
				who := "third-party"
				if addr == a.Acc.String() {
					who = "signer"
				} else if addr == b.Acc.String() {
					who = "recipient"
				}
				return e.Violatef("dao-message-delta", "dao-balance-delta-wrong:"+who+sigTail,
					"after %s by acct %d -> acct %d (code %d): DAO balance of %s (%s) in %s is %s, expected %s (before: %s)",
					st.Op, st.A, st.B, res.Code, addr, who, d, get(post.bal[addr], d), get(exp[addr], d), get(pre.bal[addr], d))
			}
		}
	}
	if v := c12LedgerOf(w, post, sigTail); v != nil {
		return v
	}
	return nil
}

func c12Ledger(w *e.World, what string, _ bool) *e.Violation {
	w.Stats.Oracle++
	return c12LedgerOf(w, daoState(w), ":after="+what)
}

func c12LedgerOf(w *e.World, s daoSnap, sigTail string) *e.Violation {
	sum := map[string]*big.Int{}
	var nonzero []string
	for addr, m := range s.bal {
		nz := false
		for d, v := range m {
			sum[d] = new(big.Int).Add(get(sum, d), v)
			if v.Sign() != 0 {
				nz = true
			}
			if v.Sign() < 0 {
				return e.Violatef("dao-ledger", "dao-negative-balance"+sigTail, "%s holds %s %s", addr, v, d)
			}
		}
		if nz {
			nonzero = append(nonzero, addr)
		}
	}
	sort.Strings(nonzero)
	denoms := map[string]bool{}
	for d := range sum {
		denoms[d] = true
	}
	for d := range s.total {
		denoms[d] = true
	}
	for d := range s.module {
		denoms[d] = true
	}
	for _, d := range e.SortedKeys(denoms) {
		if get(sum, d).Cmp(get(s.total, d)) != 0 {
			return e.Violatef("dao-ledger", "dao-sum-ne-total"+sigTail, "denom %s: sum of holder balances %s != recorded total %s (module account holds %s)", d, get(sum, d), get(s.total, d), get(s.module, d))
		}
		if get(s.total, d).Cmp(get(s.module, d)) != 0 {
			return e.Violatef("dao-ledger", "dao-total-ne-module"+sigTail, "denom %s: recorded total %s != module account balance %s", d, get(s.total, d), get(s.module, d))
		}
	}
	if fmt.Sprint(nonzero) != fmt.Sprint(s.holders) {
		return e.Violatef("dao-ledger", "dao-holders-index-wrong"+sigTail, "holders query %v != accounts with non-zero balance %v", s.holders, nonzero)
	}
	if len(nonzero) >= 2 {
		w.Stats.Probe("two_or_more_holders")
	}
	w.Stats.State(fmt.Sprintf("holders=%d,denoms=%d", len(nonzero), len(sum)))
	return nil
}

func (c12) Final(w *e.World) *e.Violation {
	Tail(w, 2)
	return c12Ledger(w, "tail", false)
}
