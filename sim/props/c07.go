package props

import (
	"fmt"
	"math/big"

	sdk "github.com/cosmos/cosmos-sdk/types"
	authtypes "github.com/cosmos/cosmos-sdk/x/auth/types"
	banktypes "github.com/cosmos/cosmos-sdk/x/bank/types"
	govtypes "github.com/cosmos/cosmos-sdk/x/gov/types"
	"github.com/ethereum/go-ethereum/common"
	"github.com/ethereum/go-ethereum/core/rawdb"
	gethstate "github.com/ethereum/go-ethereum/core/state"
	ethtypes "github.com/ethereum/go-ethereum/core/types"
	"github.com/ethereum/go-ethereum/core/vm/runtime"
	"github.com/ethereum/go-ethereum/crypto"
	gethparams "github.com/ethereum/go-ethereum/params"

	e "haqqsim/engine"
	"haqqsim/evmprog"

	evmtypes "github.com/haqq-network/haqq/x/evm/types"
	feemarkettypes "github.com/haqq-network/haqq/x/feemarket/types"
)

// C07 — every transaction pays the fee floor; EVM gas is charged exactly.
//
// World: all three Ethereum tx types, multi-message Ethereum txs and Cosmos
// txs with fee caps / tips / prices drawn around the minimum gas price and the
// current base fee (+-1), outcomes success / revert / out of gas / contract
// creation / refund, under swarm-drawn fee-market parameters that governance
// changes mid-run. Faults: byzantine proposer (no CheckTx: every tx goes straight
// to DeliverTx), delayed inclusion (signed against an older base fee), restart.
// Oracle: per-tx money-flow identity against an independently computed price.
type c07 struct{}

func init() { register("C07", func() e.Profile { return &c07{} }) }

func (c07) ID() string { return "C07" }

func (c07) Configure(r *e.RNG, tier string) e.Config {
	c := e.DefaultConfig()
	c.NVals = 1
	c.NAccts = int(r.Range(4, 6))
	c.NoBaseFee = r.Chance(0.15)
	c.BaseFee = []string{"1000000000", "7", "1000000000000", "123456789", "1"}[r.Intn(5)]
	c.MinGasPrice = []string{"0", "1", "1000000000", "123456789.5", "999999999.999999999999999999", "7"}[r.Intn(6)]
	c.MinGasMult = []string{"0.5", "0", "1", "0.25", "0.999999999999999999", "0.333333333333333333"}[r.Intn(6)]
	c.Elasticity = uint32(r.Range(1, 4))
	c.ChangeDenom = uint32([]int64{2, 8, 50}[r.Intn(3)])
	c.BlockMaxGas = []int64{-1, -1, -1, 40_000_000}[r.Intn(4)]
	c.Flags["w_blk"] = r.Range(2, 5)
	c.Flags["w_eth"] = r.Range(6, 14)
	c.Flags["w_eth2"] = r.Range(0, 3)
	c.Flags["w_cosmos"] = r.Range(1, 4)
	c.Flags["w_gov"] = r.Range(0, 2)
	c.Flags["w_crash"] = r.Range(0, 1)
	c.Flags["p_delay"] = r.Range(0, 25)
	// a fee market that is scheduled but not active yet: the base fee parameter is still what the ante
	// handler and the state transition must both charge by
	c.FeeEnableHeight = []int64{0, 0, 0, 4, 12, 100000}[r.Intn(6)]
	return c
}

func (c07) Length(cfg e.Config, tier string) int {
	if tier == "thorough" {
		return 300
	}
	return 90
}

func (c07) Tier(tier string) (uint64, int64) {
	if tier == "thorough" {
		return 4000, 2400
	}
	return 192, 300
}

func (c07) MandatoryProbes() []string {
	return []string{"eth_money_flow_checked", "rejected_below_floor", "gas_floor_applied", "vm_failure_charged"}
}

type c07Model struct {
	contracts [4]common.Address // reverter, looper, storer, storer4
	pending   [][]byte
	pendMeta  []*c07Meta
}

type c07Msg struct {
	typ       int
	gas       uint64
	price     *big.Int // gas price or fee cap
	tip       *big.Int
	value     *big.Int
	to        *common.Address
	target    int64
	accessLen int
	data      []byte
}

type c07Meta struct {
	kind     string // eth | cosmos
	sender   int
	preState map[common.Address]map[common.Hash]common.Hash // storage of the contracts before the tx
	msgs     []c07Msg
	gas      uint64   // cosmos: declared gas
	fee      *big.Int // cosmos: declared fee
}

func (c07) Setup(w *e.World) error {
	m := &c07Model{}
	w.Ext["c07"] = m
	dep := w.Acct(len(w.Accts) - 1)
	codes := [][]byte{evmprog.Reverter(), evmprog.Looper(), evmprog.Storer(), evmprog.Storer4()}
	for i, code := range codes {
		nonce := w.EthNonce(dep.Eth)
		res, err := w.DoEth(dep, e.EthArgs{Type: 2, Data: evmprog.Deployer(code), Gas: 300_000})
		if err != nil || res.Code != 0 {
			return fmt.Errorf("deploy %d failed: %v %s", i, err, res.Log)
		}
		m.contracts[i] = crypto.CreateAddress(dep.Eth, nonce)
	}
	st := e.BlkStep(1000, nil)
	w.MustBlk(&st)
	for i := range codes {
		if !w.App().EvmKeeper.GetAccountOrEmpty(w.Ctx(), m.contracts[i]).IsContract() {
			return fmt.Errorf("contract %d has no code", i)
		}
	}
	return nil
}

func (c07) senders(w *e.World) (lo, n int) { return w.Cfg.NVals, len(w.Accts) - w.Cfg.NVals }

func (p c07) Gen(w *e.World, r *e.RNG) e.Step {
	f := w.Cfg.Flags
	lo, n := p.senders(w)
	net := ""
	if int64(r.Intn(100)) < f["p_delay"] {
		net = "delay"
	}
	genMsg := func() ([]int64, []string) {
		target := int64(r.Weighted([]int{8, 2, 2, 2, 2, 1, 2, 3}))
		gas := r.Range(21000, 120000)
		if r.Chance(0.3) {
			gas = 21000
		}
		if target == 5 {
			gas = r.Range(60000, 300000)
		}
		mode := int64(r.Weighted([]int{5, 3, 1}))
		delta := r.Range(-2, 3)
		if r.Chance(0.3) {
			delta = r.Range(0, 2_000_000_000)
		}
		tip := r.Amount(big.NewInt(2_000_000_000))
		if r.Chance(0.4) {
			tip = big.NewInt(r.Range(0, 2))
		}
		return []int64{target, int64(r.Intn(3)), gas, mode, delta, int64(r.Intn(3))}, []string{r.Amount(big.NewInt(1_000_000_000)).String(), tip.String()}
	}
	switch r.Weighted([]int{int(f["w_blk"]), int(f["w_eth"]), int(f["w_eth2"]), int(f["w_cosmos"]), int(f["w_gov"]), int(f["w_crash"])}) {
	case 0:
		return e.BlkStep(r.Range(500, 6000), nil)
	case 1:
		n1, s1 := genMsg()
		return e.Step{K: "tx", Op: "eth", A: lo + r.Intn(n), B: w.AnyAcct(r), N: n1, S: s1, Net: net}
	case 2:
		n1, s1 := genMsg()
		n2, s2 := genMsg()
		return e.Step{K: "tx", Op: "eth2", A: lo + r.Intn(n), B: w.AnyAcct(r), N: append(n1, n2...), S: append(s1, s2...), Net: net}
	case 3:
		return e.Step{K: "tx", Op: "cosmos", A: lo + r.Intn(n), B: w.AnyAcct(r), N: []int64{r.Range(70_000, 400_000), int64(r.Weighted([]int{5, 3})), r.Range(-2, 3)}, Net: net}
	case 4:
		return e.Step{K: "gov", N: []int64{int64(r.Intn(4)), r.Range(0, 6)}}
	default:
		if w.Height < 3 {
			return e.BlkStep(1000, nil)
		}
		return e.Step{K: "crash", A: 0}
	}
}

// refPrice returns the price levels an honest client would sign at.
func c07Price(w *e.World, mode, delta int64) *big.Int {
	ctx := w.Ctx()
	fp := w.App().FeeMarketKeeper.GetParams(ctx)
	var p *big.Int
	switch mode {
	case 0:
		p = new(big.Int).Set(fp.BaseFee.BigInt())
	case 1:
		p = fp.MinGasPrice.Ceil().TruncateInt().BigInt()
	default:
		p = big.NewInt(0)
	}
	p.Add(p, big.NewInt(delta))
	if p.Sign() < 0 {
		p.SetInt64(0)
	}
	return p
}

func (p c07) buildEth(w *e.World, m *c07Model, st *e.Step, k int) (*evmtypes.MsgEthereumTx, c07Msg, bool) {
	a := w.Acct(st.A)
	n := func(i int) int64 { return st.NArg(6*k + i) }
	s := func(i int) string { return st.SArg(2*k + i) }
	cm := c07Msg{typ: int(n(1)), gas: uint64(n(2)), value: e.BigS(s(0)), tip: e.BigS(s(1)), target: n(0)}
	cm.price = c07Price(w, n(3), n(4))
	if cm.typ == 2 && cm.tip.Cmp(cm.price) > 0 {
		cm.tip = new(big.Int).Set(cm.price) // tip above the cap is stateless-invalid
	}
	var data []byte
	switch cm.target {
	case 0:
		to := w.Acct(st.B).Eth
		cm.to = &to
	case 1, 2:
		to := m.contracts[cm.target-1]
		cm.to = &to
	case 3:
		to := m.contracts[2]
		cm.to = &to
		cm.value = new(big.Int)
	case 4:
		to := m.contracts[2]
		cm.to = &to
		data = []byte{1}
		cm.value = new(big.Int)
	case 6:
		to := m.contracts[3]
		cm.to = &to
		cm.value = new(big.Int)
	case 7:
		to := m.contracts[3]
		cm.to = &to
		data = []byte{1}
		cm.value = new(big.Int)
	default:
		data = evmprog.Deployer(evmprog.Storer())
		cm.value = new(big.Int)
	}
	cm.data = data
	args := e.EthArgs{Type: cm.typ, To: cm.to, Value: cm.value, Gas: cm.gas, GasPrice: cm.price, Tip: cm.tip, Data: data}
	if cm.typ >= 1 && n(5) > 0 {
		al := ethtypes.AccessList{}
		for i := int64(0); i < n(5); i++ {
			al = append(al, ethtypes.AccessTuple{Address: w.Acct(int(i)).Eth})
		}
		args.Accesses = &al
		cm.accessLen = len(al)
	}
	nonce := w.EthNonce(a.Eth) + uint64(k)
	args.Nonce = &nonce
	msg, err := w.NewEthMsg(a, args)
	if err != nil {
		return nil, cm, false
	}
	return msg, cm, true
}

// effPrices returns the acceptable effective gas prices of a message.
func effPrices(cm c07Msg, baseFee *big.Int, baseFeeOn bool) []*big.Int {
	if cm.typ != 2 {
		return []*big.Int{cm.price}
	}
	if baseFeeOn {
		x := new(big.Int).Add(baseFee, cm.tip)
		if x.Cmp(cm.price) > 0 {
			x = cm.price
		}
		return []*big.Int{x}
	}
	// base fee disabled: EIP-1559 with a base fee of 0, i.e. min(cap, tip)
	x := cm.tip
	if x.Cmp(cm.price) > 0 {
		x = cm.price
	}
	return []*big.Int{x}
}

func (p c07) deliver(w *e.World, bz []byte, meta *c07Meta) *e.Violation {
	ctx := w.Ctx()
	app := w.App()
	fp := app.FeeMarketKeeper.GetParams(ctx)
	baseFeeOn := !fp.NoBaseFee
	baseFee := fp.BaseFee.BigInt()
	minGP := fp.MinGasPrice.BigInt() // × 1e18
	mult := fp.MinGasMultiplier.BigInt()
	sender := w.Acct(meta.sender)
	meta.preState = map[common.Address]map[common.Hash]common.Hash{}
	if m, ok := w.Ext["c07"].(*c07Model); ok {
		for _, c := range m.contracts {
			st := map[common.Hash]common.Hash{}
			for i := int64(0); i < 4; i++ {
				k := common.BigToHash(big.NewInt(i))
				st[k] = app.EvmKeeper.GetState(ctx, c, k)
			}
			meta.preState[c] = st
		}
	}
	fc := e.ModuleAddr(authtypes.FeeCollectorName)
	preS, preFC := w.Balance(sender.Acc), w.Balance(fc)
	_, preSeq, _ := w.AccountNumSeq(sender.Acc)
	res := w.DeliverTx(bz)
	postS, postFC := w.Balance(sender.Acc), w.Balance(fc)
	_, postSeq, _ := w.AccountNumSeq(sender.Acc)
	w.Stats.Op(meta.kind, res.Code == 0)
	w.Stats.Oracle++
	effect := postSeq != preSeq || postS.Cmp(preS) != 0 || postFC.Cmp(preFC) != 0
	desc := fmt.Sprintf("%s tx by acct %d (code %d, base fee %s on=%v, min gas price %s, multiplier %s)", meta.kind, meta.sender, res.Code, baseFee, baseFeeOn, fp.MinGasPrice, fp.MinGasMultiplier)

	if meta.kind == "cosmos" {
		floor := new(big.Int).Mul(new(big.Int).SetUint64(meta.gas), minGP) // × 1e18
		fee18 := new(big.Int).Mul(meta.fee, scale)
		if fee18.Cmp(floor) < 0 {
			if effect || res.Code == 0 {
				return e.Violatef("fee-floor", "cosmos-tx-below-fee-floor-accepted", "%s: fee %s < gas %d x min gas price", desc, meta.fee, meta.gas)
			}
			w.Stats.Probe("rejected_below_floor")
		}
		return nil
	}

	// Ethereum tx
	below, capLow := false, false
	for _, cm := range meta.msgs {
		for _, ep := range effPrices(cm, baseFee, baseFeeOn) {
			if new(big.Int).Mul(ep, scale).Cmp(minGP) < 0 {
				below = true
			}
		}
		if baseFeeOn && cm.price.Cmp(baseFee) < 0 {
			capLow = true
		}
	}
	if below || capLow {
		if effect || res.Code == 0 {
			sig := "eth-tx-below-min-gas-price-accepted"
			if capLow {
				sig = "eth-tx-fee-cap-below-base-fee-accepted"
			}
			return e.Violatef("fee-floor", sig, "%s: msgs %+v", desc, meta.msgs)
		}
		w.Stats.Probe("rejected_below_floor")
		return nil
	}
	if res.Code != 0 {
		// rejected for another reason (funds, nonce, intrinsic gas, block gas...)
		if !effect {
			w.Stats.Probe("rejected_without_effect")
		}
		return nil
	}
	// executed: decode per-message responses
	var txData sdk.TxMsgData
	if err := w.Enc.Codec.Unmarshal(res.Data, &txData); err != nil || len(txData.MsgResponses) != len(meta.msgs) {
		return e.Violatef("eth-gas-charge", "eth-response-undecodable", "%s: %v", desc, err)
	}
	var sumUsed uint64
	type cand struct{ pay, val *big.Int }
	cands := []cand{{new(big.Int), new(big.Int)}}
	for i, cm := range meta.msgs {
		var r evmtypes.MsgEthereumTxResponse
		if err := w.Enc.Codec.Unmarshal(txData.MsgResponses[i].Value, &r); err != nil {
			return e.Violatef("eth-gas-charge", "eth-response-undecodable", "%s: %v", desc, err)
		}
		gu := r.GasUsed
		sumUsed += gu
		if gu > cm.gas {
			return e.Violatef("eth-gas-charge", "gas-used-above-gas-limit", "%s: msg %d used %d > limit %d", desc, i, gu, cm.gas)
		}
		fl := new(big.Int).Mul(new(big.Int).SetUint64(cm.gas), mult)
		flFloor := new(big.Int).Quo(fl, scale)
		if new(big.Int).SetUint64(gu).Cmp(flFloor) < 0 {
			return e.Violatef("eth-gas-charge", "gas-used-below-min-gas-multiplier", "%s: msg %d used %d < %s x %d", desc, i, gu, fp.MinGasMultiplier, cm.gas)
		}
		if cm.target == 0 && !r.Failed() {
			// plain transfer to an account without code: statically known cost
			cost := uint64(21000) + uint64(cm.accessLen)*2400
			want := cost
			ceil := new(big.Int).Add(flFloor, big.NewInt(1)).Uint64()
			isContract := w.App().EvmKeeper.GetAccountOrEmpty(w.Ctx(), *cm.to).IsContract()
			if !isContract {
				ok := gu == want
				if flFloor.Uint64() > cost {
					ok = gu == flFloor.Uint64() || (gu == ceil && new(big.Int).Mul(flFloor, scale).Cmp(fl) != 0)
					w.Stats.Probe("gas_floor_applied")
				}
				if !ok {
					return e.Violatef("eth-gas-charge", "transfer-gas-used-wrong", "%s: plain transfer with limit %d used %d, expected max(%d, %s x limit)", desc, cm.gas, gu, cost, fp.MinGasMultiplier)
				}
				w.Stats.Probe("exact_transfer_cost_checked")
			}
		}
		if cm.target >= 1 && cm.target != 5 && len(meta.msgs) == 1 {
			// contract targets: the gas an independent EVM run needs (go-ethereum's
			// runtime on an in-memory state holding the target's code and storage),
			// with intrinsic gas and the EIP-3529 refund cap applied from the spec
			if ref, ok := refEVMGas(w, meta.preState, sender.Eth, cm); ok {
				want := ref
				if flFloor.Uint64() > want {
					want = flFloor.Uint64()
				}
				ceil := new(big.Int).Add(flFloor, big.NewInt(1)).Uint64()
				if gu != want && !(gu == ceil && ref < ceil) {
					return e.Violatef("eth-gas-charge", "contract-call-gas-used-wrong", "%s: call to target %d with limit %d used %d, reference EVM run gives %d (floor %s)", desc, cm.target, cm.gas, gu, ref, flFloor)
				}
				w.Stats.Probe("reference_evm_gas_checked")
				if cm.target == 7 {
					w.Stats.Probe("refund_cap_exercised")
				}
			}
		}
		if r.Failed() {
			w.Stats.Probe("vm_failure_charged")
			w.Stats.State("vmerr:" + trunc(r.VmError, 24))
		}
		var next []cand
		for _, ep := range effPrices(cm, baseFee, baseFeeOn) {
			for _, c := range cands {
				pay := new(big.Int).Add(c.pay, new(big.Int).Mul(new(big.Int).SetUint64(gu), ep))
				val := new(big.Int).Set(c.val)
				if !r.Failed() && cm.to != nil && *cm.to != sender.Eth {
					val.Add(val, cm.value)
				}
				next = append(next, cand{pay, val})
			}
		}
		cands = next
	}
	if uint64(res.GasUsed) != sumUsed {
		return e.Violatef("eth-gas-charge", "response-gas-used-differs", "%s: DeliverTx GasUsed %d != sum of message gas used %d", desc, res.GasUsed, sumUsed)
	}
	dS := sub(preS, postS)
	dFC := sub(postFC, preFC)
	okFlow := false
	for _, c := range cands {
		if dFC.Cmp(c.pay) == 0 && dS.Cmp(new(big.Int).Add(c.pay, c.val)) == 0 {
			okFlow = true
		}
	}
	w.Stats.Probe("eth_money_flow_checked")
	if !okFlow {
		return e.Violatef("eth-gas-charge", "eth-money-flow-wrong", "%s: sender paid %s, fee collector received %s; expected gasUsed x effectiveGasPrice = %s (+ value %s); msgs %+v", desc, dS, dFC, cands[0].pay, cands[0].val, meta.msgs)
	}
	w.Stats.State(fmt.Sprintf("n=%d,type=%d,target=%d", len(meta.msgs), meta.msgs[0].typ, meta.msgs[0].target))
	return nil
}

func (p c07) Exec(w *e.World, st *e.Step) *e.Violation {
	m := w.Ext["c07"].(*c07Model)
	switch st.K {
	case "blk":
		w.MustBlk(st)
		// delayed txs (signed against the previous block's base fee) are included now
		pend, metas := m.pending, m.pendMeta
		m.pending, m.pendMeta = nil, nil
		for i, bz := range pend {
			w.Stats.Fault("delayed_inclusion")
			if v := p.deliver(w, bz, metas[i]); v != nil {
				return v
			}
		}
		return nil
	case "crash":
		v, _ := ExecCommon(w, st)
		return v
	case "gov":
		fp := w.App().FeeMarketKeeper.GetParams(w.Ctx())
		switch st.NArg(0) {
		case 0:
			fp.MinGasMultiplier = sdk.NewDecWithPrec(st.NArg(1)*15, 2)
		case 1:
			fp.MinGasPrice = sdk.NewDecWithPrec(st.NArg(1)*333_333_333_5, 1)
		case 2:
			fp.BaseFeeChangeDenominator = uint32(1 + 7*st.NArg(1))
		default:
			fp.NoBaseFee = st.NArg(1)%2 == 0
		}
		if fp.Validate() != nil {
			return nil
		}
		govPass(w, []sdk.Msg{&feemarkettypes.MsgUpdateParams{Authority: e.ModuleAddr(govtypes.ModuleName).String(), Params: fp}})
		return nil
	case "tx":
		if st.A >= len(w.Accts) {
			return nil
		}
		var bz []byte
		meta := &c07Meta{sender: st.A}
		switch st.Op {
		case "eth", "eth2":
			meta.kind = "eth"
			k := 1
			if st.Op == "eth2" {
				k = 2
			}
			var msgs []*evmtypes.MsgEthereumTx
			for i := 0; i < k; i++ {
				msg, cm, ok := p.buildEth(w, m, st, i)
				if !ok {
					return nil
				}
				msgs = append(msgs, msg)
				meta.msgs = append(meta.msgs, cm)
			}
			var err error
			bz, err = w.WrapEthMsgs(msgs...)
			if err != nil {
				return nil
			}
		case "cosmos":
			meta.kind = "cosmos"
			a, b := w.Acct(st.A), w.Acct(st.B)
			meta.gas = uint64(st.NArg(0))
			price := c07Price(w, st.NArg(1), st.NArg(2))
			meta.fee = new(big.Int).Mul(price, new(big.Int).SetUint64(meta.gas))
			var err error
			bz, err = w.BuildCosmosTx(a, e.TxOpts{Gas: meta.gas, GasPrice: price}, banktypes.NewMsgSend(a.Acc, b.Acc, e.Native(big.NewInt(1))))
			if err != nil {
				return nil
			}
		default:
			return nil
		}
		if st.Net == "delay" {
			m.pending = append(m.pending, bz)
			m.pendMeta = append(m.pendMeta, meta)
			return nil
		}
		return p.deliver(w, bz, meta)
	}
	return nil
}

func (p c07) Final(w *e.World) *e.Violation {
	for i := 0; i < 2; i++ {
		st := e.BlkStep(2000, nil)
		if v := p.Exec(w, &st); v != nil {
			return v
		}
	}
	return nil
}

// refEVMGas runs the call on go-ethereum's own in-memory runtime and applies
// intrinsic gas (21000 + calldata + access list) and the EIP-3529 refund cap
// (refund <= gasUsed/5) as the specifications state them.
func refEVMGas(w *e.World, pre map[common.Address]map[common.Hash]common.Hash, from common.Address, cm c07Msg) (uint64, bool) {
	if cm.to == nil {
		return 0, false
	}
	code := w.App().EvmKeeper.GetCode(w.Ctx(), common.BytesToHash(w.App().EvmKeeper.GetAccountOrEmpty(w.Ctx(), *cm.to).CodeHash))
	if len(code) == 0 {
		return 0, false
	}
	intrinsic := uint64(21000) + uint64(cm.accessLen)*2400
	for _, b := range cm.data {
		if b == 0 {
			intrinsic += 4
		} else {
			intrinsic += 16
		}
	}
	if cm.gas <= intrinsic {
		return 0, false // (a gas limit of 0 means "unlimited" to the reference runtime)
	}
	db, err := gethstate.New(common.Hash{}, gethstate.NewDatabase(rawdb.NewMemoryDatabase()), nil)
	if err != nil {
		return 0, false
	}
	db.SetCode(*cm.to, code)
	for k, v := range pre[*cm.to] {
		db.SetState(*cm.to, k, v)
	}
	db.AddBalance(from, new(big.Int).Lsh(big.NewInt(1), 100))
	db.Finalise(true) // originals = current, as at the start of a transaction
	cfg := &runtime.Config{State: db, GasLimit: cm.gas - intrinsic, Origin: from, Value: new(big.Int).Set(cm.value),
		ChainConfig: gethparams.AllEthashProtocolChanges, BlockNumber: big.NewInt(100), BaseFee: big.NewInt(0), GasPrice: big.NewInt(0)}
	_, left, cerr := runtime.Call(*cm.to, cm.data, cfg)
	used := intrinsic + (cm.gas - intrinsic - left)
	if cerr == nil {
		refund := db.GetRefund()
		if max := used / 5; refund > max {
			refund = max
		}
		used -= refund
	}
	return used, true
}
