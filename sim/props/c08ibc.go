package props

import (
	"fmt"
	"math/big"
	"strings"
	"time"

	sdkmath "cosmossdk.io/math"
	abci "github.com/cometbft/cometbft/abci/types"
	sdk "github.com/cosmos/cosmos-sdk/types"
	sdkvesting "github.com/cosmos/cosmos-sdk/x/auth/vesting/types"
	banktypes "github.com/cosmos/cosmos-sdk/x/bank/types"
	transfertypes "github.com/cosmos/ibc-go/v7/modules/apps/transfer/types"
	clienttypes "github.com/cosmos/ibc-go/v7/modules/core/02-client/types"
	ibcgotesting "github.com/cosmos/ibc-go/v7/testing"

	vestingtypes "github.com/haqq-network/haqq/x/vesting/types"

	e "haqqsim/engine"
)

// C08 over IBC — "IBC transfer" is one of the paths by which locked coins must
// not leave a vesting account. A sixth of the C08 runs use the two-chain world
// of c10ibc.go: on each chain one account holds 100 ISLM locked for ten
// million seconds (fully vested, so only the lock-up applies) plus a little
// free money. It tries to transfer native coins to the other chain, by
// MsgTransfer and through the ICS-20 precompile, for amounts around and above
// what is free; the relayer delivers, drops (timeout → refund) and duplicates.
// Oracle after every step: the account still holds at least the locked amount,
// and an accepted transfer was covered by free coins.

type c08mux struct{ vest *vesting }

func newC08() e.Profile { return &c08mux{vest: &vesting{"C08"}} }

func (c08mux) ID() string { return "C08" }

var c08Locked = e.BigS("100000000000000000000")

func (m *c08mux) Configure(r *e.RNG, tier string) e.Config {
	if r.Chance(0.16) {
		c := e.DefaultConfig()
		c.NVals, c.NAccts = 1, 2
		c.Flags["ibc"] = 1
		c.Flags["users"] = 2
		c.Flags["w_vxfer"] = r.Range(5, 9)
		c.Flags["w_relay"] = r.Range(2, 6)
		c.Flags["w_ack"] = r.Range(1, 4)
		c.Flags["w_timeout"] = r.Range(1, 4)
		c.Flags["w_blk"] = r.Range(1, 3)
		c.Flags["max_timeout"] = []int64{3, 10}[r.Intn(2)]
		return c
	}
	return m.vest.Configure(r, tier)
}

func (m *c08mux) Length(cfg e.Config, tier string) int {
	if isIBC(cfg) {
		if tier == "thorough" {
			return 80
		}
		return 30
	}
	return m.vest.Length(cfg, tier)
}

func (m *c08mux) Tier(tier string) (uint64, int64) { return m.vest.Tier(tier) }

func (m *c08mux) MandatoryProbes() []string {
	return append(m.vest.MandatoryProbes(), "ibc_transfer_by_vesting_account_accepted", "ibc_transfer_of_locked_coins_refused")
}

type c08ibc struct {
	iw   *ibcWorld
	vest [2]*e.Account
}

func (m *c08mux) Setup(w *e.World) error {
	if !isIBC(w.Cfg) {
		return m.vest.Setup(w)
	}
	iw, err := newIBCWorld(e.KeySeed, 2)
	if err != nil {
		return err
	}
	iw.stats, iw.w = w.Stats, w
	x := &c08ibc{iw: iw}
	for c := 0; c < 2; c++ {
		acct := e.NewAccount(e.KeySeed, 100*c+50)
		x.vest[c] = acct
		rel := iw.relayer(c)
		start := iw.ch[c].tc.CurrentHeader.Time
		lock := sdkvesting.Periods{{Length: 10_000_000, Amount: sdk.NewCoins(sdk.NewCoin(e.Denom, sdkmath.NewIntFromBigInt(c08Locked)))}}
		var vestNow sdkvesting.Periods // none: everything is vested at the start, only the lock-up applies
		if _, err := iw.deliver(c, rel, banktypes.NewMsgSend(rel.Acc, acct.Acc, sdk.NewCoins(sdk.NewCoin(e.Denom, sdkmath.NewIntFromBigInt(e.BigS("3000000000000000000")))))); err != nil {
			return fmt.Errorf("fund vesting user: %w", err)
		}
		if _, err := iw.deliver(c, rel, vestingtypes.NewMsgCreateClawbackVestingAccount(rel.Acc, acct.Acc, start.Add(-time.Second), lock, vestNow, true)); err != nil {
			// an existing plain account is converted instead
			if _, err2 := iw.deliver(c, rel, vestingtypes.NewMsgConvertIntoVestingAccount(rel.Acc, acct.Acc, start.Add(-time.Second), lock, vestNow, true, false, nil)); err2 != nil {
				return fmt.Errorf("create vesting account: %v / %v", err, err2)
			}
		}
	}
	w.Ext["c08ibc"] = x
	w.Ext["ibc"] = iw
	return nil
}

func (m *c08mux) Gen(w *e.World, r *e.RNG) e.Step {
	if !isIBC(w.Cfg) {
		return m.vest.Gen(w, r)
	}
	x := w.Ext["c08ibc"].(*c08ibc)
	iw := x.iw
	f := w.Cfg.Flags
	var unrecv, unacked []int
	for _, p := range iw.pkts {
		if !p.Done && !p.Received {
			unrecv = append(unrecv, p.ID)
		}
		if !p.Done && p.Received {
			unacked = append(unacked, p.ID)
		}
	}
	pick := func(xs []int) int64 {
		if len(xs) == 0 {
			return int64(r.Intn(3))
		}
		return int64(xs[r.Intn(len(xs))])
	}
	c := r.Intn(2)
	switch r.Weighted([]int{int(f["w_vxfer"]), int(f["w_relay"]), int(f["w_ack"]), int(f["w_timeout"]), int(f["w_blk"])}) {
	case 0:
		bal := iw.ch[c].app.BankKeeper.GetBalance(iw.ctx(c), x.vest[c].Acc, e.Denom).Amount.BigInt()
		free := new(big.Int).Sub(bal, c08Locked)
		var amt *big.Int
		switch r.Intn(4) {
		case 0:
			amt = r.Amount(bal) // anything up to the whole balance
		case 1:
			amt = new(big.Int).Add(free, big.NewInt(r.Range(1, 1000))) // just above what is free
		case 2:
			amt = r.Amount(new(big.Int).Add(free, big.NewInt(1))) // within what is free (fees still come on top)
		default:
			amt = new(big.Int).Set(c08Locked)
		}
		if amt.Sign() <= 0 {
			amt = big.NewInt(1)
		}
		return e.Step{K: "ibc", Op: "vest_xfer", A: r.Intn(2), N: []int64{int64(c), int64(r.Intn(2)), r.Range(1, f["max_timeout"])}, S: []string{amt.String()}}
	case 1:
		return e.Step{K: "ibc", Op: "relay", N: []int64{pick(unrecv)}}
	case 2:
		return e.Step{K: "ibc", Op: "ack", N: []int64{pick(unacked)}}
	case 3:
		return e.Step{K: "ibc", Op: "timeout", N: []int64{pick(unrecv)}}
	default:
		return e.Step{K: "ibc", Op: "blk", N: []int64{int64(c), r.Range(1, 4)}}
	}
}

// c08Check: the vesting accounts still hold what is locked.
func (x *c08ibc) check(w *e.World, after string) *e.Violation {
	for c := 0; c < 2; c++ {
		bal := x.iw.ch[c].app.BankKeeper.GetBalance(x.iw.ctx(c), x.vest[c].Acc, e.Denom).Amount.BigInt()
		w.Stats.Oracle++
		w.Stats.Probe("locked_balance_checked")
		if bal.Cmp(c08Locked) < 0 {
			return e.Violatef("vesting-lock", "ibc:balance-below-locked-amount", "after %s: the vesting account on chain %d holds %s, but %s are locked for ten million seconds", after, c, bal, c08Locked)
		}
	}
	return nil
}

// sendNative: an ICS-20 transfer of the native coin by the vesting account of chain c.
func (x *c08ibc) sendNative(c int, to int, amt *big.Int, timeoutBlocks uint64, via bool) (*ibcPacket, error) {
	iw := x.iw
	d := iw.other(c)
	src, dst := iw.ch[c], iw.ch[d]
	acct := x.vest[c]
	rev := clienttypes.ParseChainID(dst.tc.ChainID)
	th := clienttypes.NewHeight(rev, uint64(dst.tc.CurrentHeader.Height)+timeoutBlocks)
	receiver := iw.users[d][to%len(iw.users[d])].Acc.String()
	var events sdk.Events
	if !via {
		msg := transfertypes.NewMsgTransfer(src.ep.ChannelConfig.PortID, src.ep.ChannelID, sdk.NewCoin(e.Denom, sdkmath.NewIntFromBigInt(amt)), acct.Acc.String(), receiver, th, 0, "")
		res, err := iw.deliver(c, acct, msg)
		if err != nil {
			return nil, err
		}
		events = res.GetEvents()
	} else {
		data, err := loadABI("ics20").Pack("transfer", src.ep.ChannelConfig.PortID, src.ep.ChannelID, e.Denom, amt, acct.Eth, receiver,
			ics20Height{th.RevisionNumber, th.RevisionHeight}, uint64(0), "")
		if err != nil {
			return nil, fmt.Errorf("harness: pack: %w", err)
		}
		chain := src.tc
		iw.coord.UpdateTimeForChain(chain)
		ctx := chain.GetContext()
		nonce := src.app.EvmKeeper.GetNonce(ctx, acct.Eth)
		price := new(big.Int).Mul(src.app.FeeMarketKeeper.GetBaseFee(ctx), big.NewInt(2))
		if price.Sign() == 0 {
			price = big.NewInt(1_000_000_000)
		}
		target := addrICS20
		bz, _, err := iw.w.BuildEthTx(acct, e.EthArgs{Type: 2, To: &target, Gas: 1_000_000, Data: data, Nonce: &nonce, GasPrice: price, ChainID: src.app.EvmKeeper.ChainID()})
		if err != nil {
			return nil, fmt.Errorf("harness: build: %w", err)
		}
		res := chain.App.DeliverTx(abci.RequestDeliverTx{Tx: bz})
		chain.NextBlock()
		iw.coord.IncrementTime()
		iw.syncRelayer(c)
		if res.Code != 0 {
			return nil, fmt.Errorf("eth tx failed: code %d: %s", res.Code, res.Log)
		}
		if r, err := iw.w.EthResponse(e.TxResult{Code: res.Code, Data: res.Data, Log: res.Log}); err != nil || r.Failed() {
			return nil, fmt.Errorf("precompile call failed in the EVM")
		}
		for _, ev := range res.Events {
			events = append(events, sdk.Event(ev))
		}
	}
	packet, err := ibcgotesting.ParsePacketFromEvents(events)
	if err != nil {
		return nil, fmt.Errorf("transfer succeeded without a send_packet event: %w", err)
	}
	p := &ibcPacket{ID: len(iw.pkts), Fam: -1, Src: c, From: -1, To: to, Amt: new(big.Int).Set(amt), Packet: packet}
	iw.pkts = append(iw.pkts, p)
	return p, nil
}

func (m *c08mux) Exec(w *e.World, st *e.Step) *e.Violation {
	if !isIBC(w.Cfg) {
		return m.vest.Exec(w, st)
	}
	if st.K != "ibc" {
		return nil
	}
	x := w.Ext["c08ibc"].(*c08ibc)
	iw := x.iw
	desc := fmt.Sprintf("%s %v %v", st.Op, st.N, st.S)
	harness := func(err error) {
		if err != nil && strings.HasPrefix(err.Error(), "harness:") {
			panic(err)
		}
	}
	pkt := func() *ibcPacket {
		id := int(st.NArg(0))
		if id < 0 || id >= len(iw.pkts) {
			return nil
		}
		return iw.pkts[id]
	}
	switch st.Op {
	case "vest_xfer":
		c := int(st.NArg(0)) % 2
		amt := e.BigS(st.SArg(0))
		if amt.Sign() <= 0 {
			return nil
		}
		pre := iw.ch[c].app.BankKeeper.GetBalance(iw.ctx(c), x.vest[c].Acc, e.Denom).Amount.BigInt()
		w.Stats.Probe("debit_attempt_by_vesting_account")
		_, err := x.sendNative(c, st.A, amt, uint64(st.NArg(2)), st.NArg(1) == 1)
		harness(err)
		w.Stats.Op("vest_ibc_xfer", err == nil)
		free := new(big.Int).Sub(pre, c08Locked)
		if err == nil {
			w.Stats.Probe("ibc_transfer_by_vesting_account_accepted")
			if amt.Cmp(free) > 0 {
				return e.Violatef("vesting-lock", "ibc:locked-coins-transferred", "%s: the vesting account on chain %d held %s (%s locked) and an IBC transfer of %s was accepted", desc, c, pre, c08Locked, amt)
			}
		} else if amt.Cmp(free) > 0 {
			w.Stats.Probe("ibc_transfer_of_locked_coins_refused")
		}
	case "relay":
		if p := pkt(); p != nil {
			res, err := iw.recv(p)
			harness(err)
			if err == nil && !p.Received {
				if ack, aerr := ibcgotesting.ParseAckFromEvents(res.GetEvents()); aerr == nil {
					p.Received, p.Ack, p.AckOK = true, ack, ackIsSuccess(ack)
				}
			}
		}
	case "ack":
		if p := pkt(); p != nil && p.Received {
			_, err := iw.ack(p)
			harness(err)
			if err == nil {
				p.Done = true
			}
		}
	case "timeout":
		if p := pkt(); p != nil {
			_, err := iw.timeout(p)
			harness(err)
			if err == nil {
				p.Done = true
				w.Stats.Fault("ibc_packet_dropped_until_timeout")
			}
		}
	case "blk":
		c := int(st.NArg(0)) % 2
		for i := int64(0); i < st.NArg(1) && i < 8; i++ {
			iw.commit(c)
		}
	}
	return x.check(w, desc)
}

func (m *c08mux) Final(w *e.World) *e.Violation {
	if !isIBC(w.Cfg) {
		return m.vest.Final(w)
	}
	x := w.Ext["c08ibc"].(*c08ibc)
	return x.check(w, "end of run")
}
