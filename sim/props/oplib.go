package props

import (
	"encoding/json"
	"fmt"
	"math/big"
	"os"
	"sort"
	"time"

	sdkmath "cosmossdk.io/math"
	sdk "github.com/cosmos/cosmos-sdk/types"
	sdkvesting "github.com/cosmos/cosmos-sdk/x/auth/vesting/types"
	"github.com/cosmos/cosmos-sdk/x/authz"
	banktypes "github.com/cosmos/cosmos-sdk/x/bank/types"
	distrtypes "github.com/cosmos/cosmos-sdk/x/distribution/types"
	govtypes "github.com/cosmos/cosmos-sdk/x/gov/types"
	govv1 "github.com/cosmos/cosmos-sdk/x/gov/types/v1"
	govv1beta1 "github.com/cosmos/cosmos-sdk/x/gov/types/v1beta1"
	paramproposal "github.com/cosmos/cosmos-sdk/x/params/types/proposal"
	stakingtypes "github.com/cosmos/cosmos-sdk/x/staking/types"
	upgradetypes "github.com/cosmos/cosmos-sdk/x/upgrade/types"
	"github.com/ethereum/go-ethereum/common"
	"github.com/ethereum/go-ethereum/crypto"

	e "haqqsim/engine"
	"haqqsim/evmprog"

	"github.com/haqq-network/haqq/contracts"
	coinomicstypes "github.com/haqq-network/haqq/x/coinomics/types"
	erc20types "github.com/haqq-network/haqq/x/erc20/types"
	evmtypes "github.com/haqq-network/haqq/x/evm/types"
	feemarkettypes "github.com/haqq-network/haqq/x/feemarket/types"
	liquidvestingtypes "github.com/haqq-network/haqq/x/liquidvesting/types"
	ucdaotypes "github.com/haqq-network/haqq/x/ucdao/types"
	vestingtypes "github.com/haqq-network/haqq/x/vesting/types"
)

// Sched is the JSON payload of vesting-schedule carrying steps.
type Sched struct {
	Start int64       `json:"start"` // unix seconds
	Lock  [][2]string `json:"lock"`  // [length seconds, amount]
	Vest  [][2]string `json:"vest"`
	LockU []string    `json:"lock_u,omitempty"` // second denomination (utest) amount of lock-up period i
	VestU []string    `json:"vest_u,omitempty"`
	Merge bool        `json:"merge,omitempty"`
	Stake bool        `json:"stake,omitempty"`
	Val   int         `json:"val,omitempty"`
}

func (s Sched) periods(p [][2]string, second []string) sdkvesting.Periods {
	var out sdkvesting.Periods
	for i, x := range p {
		l := e.BigS(x[0]).Int64()
		cs := sdk.NewCoins()
		if a := e.BigS(x[1]); a.Sign() > 0 {
			cs = cs.Add(e.C(e.Denom, a))
		}
		if i < len(second) {
			if a := e.BigS(second[i]); a.Sign() > 0 {
				cs = cs.Add(e.C("utest", a))
			}
		}
		out = append(out, sdkvesting.Period{Length: l, Amount: cs})
	}
	return out
}
func (s Sched) LockP() sdkvesting.Periods { return s.periods(s.Lock, s.LockU) }
func (s Sched) VestP() sdkvesting.Periods { return s.periods(s.Vest, s.VestU) }

// Total2 is the grant's total in the second denomination.
func (s Sched) Total2() *big.Int {
	t := new(big.Int)
	src := s.LockU
	if len(s.Lock) == 0 {
		src = s.VestU
	}
	for _, x := range src {
		t.Add(t, e.BigS(x))
	}
	return t
}

// AddSecondDenom gives the schedule amounts in a second denomination, split
// independently over the lock-up and the vesting periods (same total).
func (s *Sched) AddSecondDenom(r *e.RNG, total *big.Int) {
	split := func(n int) []string {
		if n == 0 {
			return nil
		}
		if total.Cmp(big.NewInt(int64(n))) < 0 {
			out := make([]string, n)
			for i := range out {
				out[i] = "0"
			}
			out[n-1] = total.String()
			return out
		}
		var out []string
		for _, a := range splitAmount(r, total, n) {
			out = append(out, a.String())
		}
		// some periods carry nothing in the second denomination
		if n > 1 && r.Chance(0.5) {
			i := r.Intn(n - 1)
			x := new(big.Int).Add(e.BigS(out[i]), e.BigS(out[n-1]))
			out[i], out[n-1] = "0", x.String()
		}
		return out
	}
	s.LockU = split(len(s.Lock))
	s.VestU = split(len(s.Vest))
}
func (s Sched) Total() *big.Int {
	t := new(big.Int)
	src := s.Lock
	if len(src) == 0 {
		src = s.Vest
	}
	for _, x := range src {
		t.Add(t, e.BigS(x[1]))
	}
	return t
}

func periodLen(r *e.RNG) int64 {
	switch r.Weighted([]int{2, 3, 3, 3, 2, 1}) {
	case 0:
		return 1
	case 1:
		return r.Range(2, 30)
	case 2:
		return r.Range(60, 3600)
	case 3:
		return r.Range(3600, 86400)
	case 4:
		return r.Range(86400, 30*86400)
	default:
		return r.Range(100*86400, 400*86400)
	}
}

func splitAmount(r *e.RNG, total *big.Int, k int) []*big.Int {
	out := make([]*big.Int, 0, k)
	left := new(big.Int).Set(total)
	for i := 0; i < k-1; i++ {
		// each part at least 1
		maxPart := new(big.Int).Sub(left, big.NewInt(int64(k-1-i)))
		if maxPart.Sign() <= 0 {
			out = append(out, big.NewInt(1))
			left.Sub(left, big.NewInt(1))
			continue
		}
		p := r.BigBelow(maxPart)
		p.Add(p, big.NewInt(1))
		out = append(out, p)
		left.Sub(left, p)
	}
	out = append(out, left)
	return out
}

// GenSched draws a schedule of `total` starting around `now`.
func GenSched(r *e.RNG, now int64, total *big.Int, vestDone bool) Sched {
	s := Sched{}
	switch r.Weighted([]int{4, 3, 2, 1}) {
	case 0:
		s.Start = now
	case 1:
		s.Start = now - r.Range(1, 200_000)
	case 2:
		s.Start = now - r.Range(200_000, 40_000_000)
	default:
		s.Start = now + r.Range(1, 100_000)
	}
	mk := func(k int) [][2]string {
		if total.Cmp(big.NewInt(int64(k))) < 0 {
			k = 1
		}
		var out [][2]string
		for _, a := range splitAmount(r, total, k) {
			out = append(out, [2]string{fmt.Sprint(periodLen(r)), a.String()})
		}
		return out
	}
	s.Lock = mk(1 + r.Weighted([]int{3, 3, 2, 1}))
	if vestDone {
		// vesting finished in the past: only the lock-up matters (liquid-vesting profile)
		s.Vest = nil
	} else if r.Chance(0.7) {
		s.Vest = mk(1 + r.Weighted([]int{3, 3, 2, 1}))
	}
	if r.Chance(0.15) && len(s.Vest) > 0 {
		s.Lock = nil
	}
	return s
}

// ---------------------------------------------------------------------------
// Op library: every operation is a (generator, message builder) pair. Steps
// carry concrete arguments; the transaction is built and signed at execution
// time with the sequence number the client reads from the node.

type OpDef struct {
	Name string
	Gen  func(w *e.World, r *e.RNG) e.Step
	// Msgs builds the Cosmos messages (signer, msgs). ok=false: step not executable.
	Msgs func(w *e.World, st *e.Step) (*e.Account, []sdk.Msg, bool)
	// Eth builds an Ethereum tx instead.
	Eth func(w *e.World, st *e.Step) (*e.Account, e.EthArgs, bool)
}

var Ops = map[string]*OpDef{}

func defOp(o *OpDef) { Ops[o.Name] = o }

func nAcc(w *e.World) int { return len(w.Accts) }

func valAddr(w *e.World, i int64) sdk.ValAddress {
	if len(w.Vals) == 0 {
		return nil
	}
	k := int(i) % len(w.Vals)
	if k < 0 {
		k = -k
	}
	return w.Vals[k].ValAddr
}

func delegationOf(w *e.World, del sdk.AccAddress, val sdk.ValAddress) *big.Int {
	ctx := w.Ctx()
	d, ok := w.App().StakingKeeper.GetDelegation(ctx, del, val)
	if !ok {
		return new(big.Int)
	}
	v, ok := w.App().StakingKeeper.GetValidator(ctx, val)
	if !ok {
		return new(big.Int)
	}
	return v.TokensFromShares(d.Shares).TruncateInt().BigInt()
}

// ---- state-aware pickers (generation only)

func allIdx(w *e.World) []int {
	out := make([]int, 0, nAcc(w)+e.NExtra)
	for i := 0; i < nAcc(w)+e.NExtra; i++ {
		out = append(out, i)
	}
	return out
}

func idxOf(w *e.World, addr string) int {
	for _, i := range allIdx(w) {
		if w.Acct(i).Acc.String() == addr {
			return i
		}
	}
	return -1
}

// vestingAccts returns the indices of accounts that currently are clawback vesting accounts.
func vestingAccts(w *e.World) []int {
	ctx := w.Ctx()
	var out []int
	for _, i := range allIdx(w) {
		if _, ok := w.App().AccountKeeper.GetAccount(ctx, w.Acct(i).Acc).(*vestingtypes.ClawbackVestingAccount); ok {
			out = append(out, i)
		}
	}
	return out
}

func vestingAcct(w *e.World, i int) *vestingtypes.ClawbackVestingAccount {
	va, _ := w.App().AccountKeeper.GetAccount(w.Ctx(), w.Acct(i).Acc).(*vestingtypes.ClawbackVestingAccount)
	return va
}

type delegRec struct {
	a   int
	val int64
	amt *big.Int
}

func delegations(w *e.World) []delegRec {
	var out []delegRec
	for _, i := range allIdx(w) {
		for v := range w.Vals {
			if d := delegationOf(w, w.Acct(i).Acc, w.Vals[v].ValAddr); d.Sign() > 0 {
				out = append(out, delegRec{i, int64(v), d})
			}
		}
	}
	return out
}

// liquidHolding returns bank + ERC20 balance of a liquid denom for account i.
func liquidHolding(w *e.World, i int, denom string) *big.Int {
	ctx := w.Ctx()
	b := w.App().BankKeeper.GetBalance(ctx, w.Acct(i).Acc, denom).Amount.BigInt()
	id := w.App().Erc20Keeper.GetTokenPairID(ctx, denom)
	if pair, ok := w.App().Erc20Keeper.GetTokenPair(ctx, id); ok {
		if x := w.App().Erc20Keeper.BalanceOf(ctx, contracts.ERC20MinterBurnerDecimalsContract.ABI, pair.GetERC20Contract(), w.Acct(i).Eth); x != nil {
			b = new(big.Int).Add(b, x)
		}
	}
	return b
}

func liquidDenoms(w *e.World) []string {
	var out []string
	for _, d := range w.App().LiquidVestingKeeper.GetAllDenoms(w.Ctx()) {
		out = append(out, d.BaseDenom)
	}
	return out
}

func init() {
	defOp(&OpDef{Name: "send",
		Gen: func(w *e.World, r *e.RNG) e.Step {
			a := r.Intn(nAcc(w))
			b := w.AnyAcct(r)
			if va := vestingAccts(w); len(va) > 0 && r.Chance(0.35) {
				b = va[r.Intn(len(va))] // vesting accounts need free coins to pay fees
			}
			return e.Step{K: "tx", Op: "send", A: a, B: b, S: []string{r.Amount(w.Balance(w.Acct(a).Acc)).String()}}
		},
		Msgs: func(w *e.World, st *e.Step) (*e.Account, []sdk.Msg, bool) {
			a, b := w.Acct(st.A), w.Acct(st.B)
			return a, []sdk.Msg{banktypes.NewMsgSend(a.Acc, b.Acc, e.Native(e.BigS(st.SArg(0))))}, true
		}})
	defOp(&OpDef{Name: "delegate",
		Gen: func(w *e.World, r *e.RNG) e.Step {
			a := r.Intn(nAcc(w))
			return e.Step{K: "tx", Op: "delegate", A: a, N: []int64{int64(r.Intn(len(w.Vals)))}, S: []string{r.Amount(w.Balance(w.Acct(a).Acc)).String()}}
		},
		Msgs: func(w *e.World, st *e.Step) (*e.Account, []sdk.Msg, bool) {
			a := w.Acct(st.A)
			return a, []sdk.Msg{stakingtypes.NewMsgDelegate(a.Acc, valAddr(w, st.NArg(0)), e.C(e.Denom, e.BigS(st.SArg(0))))}, true
		}})
	defOp(&OpDef{Name: "undelegate",
		Gen: func(w *e.World, r *e.RNG) e.Step {
			a := r.Intn(nAcc(w))
			v := int64(r.Intn(len(w.Vals)))
			if ds := delegations(w); len(ds) > 0 && r.Chance(0.8) {
				d := ds[r.Intn(len(ds))]
				a, v = d.a, d.val
			}
			return e.Step{K: "tx", Op: "undelegate", A: a, N: []int64{v}, S: []string{r.Amount(delegationOf(w, w.Acct(a).Acc, valAddr(w, v))).String()}}
		},
		Msgs: func(w *e.World, st *e.Step) (*e.Account, []sdk.Msg, bool) {
			a := w.Acct(st.A)
			return a, []sdk.Msg{stakingtypes.NewMsgUndelegate(a.Acc, valAddr(w, st.NArg(0)), e.C(e.Denom, e.BigS(st.SArg(0))))}, true
		}})
	defOp(&OpDef{Name: "redelegate",
		Gen: func(w *e.World, r *e.RNG) e.Step {
			a := r.Intn(nAcc(w))
			v := int64(r.Intn(len(w.Vals)))
			v2 := int64(r.Intn(len(w.Vals)))
			if ds := delegations(w); len(ds) > 0 && r.Chance(0.8) {
				d := ds[r.Intn(len(ds))]
				a, v = d.a, d.val
				if len(w.Vals) > 1 {
					v2 = (v + 1 + int64(r.Intn(len(w.Vals)-1))) % int64(len(w.Vals))
				}
			}
			return e.Step{K: "tx", Op: "redelegate", A: a, N: []int64{v, v2}, S: []string{r.Amount(delegationOf(w, w.Acct(a).Acc, valAddr(w, v))).String()}}
		},
		Msgs: func(w *e.World, st *e.Step) (*e.Account, []sdk.Msg, bool) {
			a := w.Acct(st.A)
			return a, []sdk.Msg{stakingtypes.NewMsgBeginRedelegate(a.Acc, valAddr(w, st.NArg(0)), valAddr(w, st.NArg(1)), e.C(e.Denom, e.BigS(st.SArg(0))))}, true
		}})
	defOp(&OpDef{Name: "withdraw",
		Gen: func(w *e.World, r *e.RNG) e.Step {
			a, v := r.Intn(nAcc(w)), int64(r.Intn(len(w.Vals)))
			if ds := delegations(w); len(ds) > 0 && r.Chance(0.8) {
				d := ds[r.Intn(len(ds))]
				a, v = d.a, d.val
			}
			return e.Step{K: "tx", Op: "withdraw", A: a, N: []int64{v}}
		},
		Msgs: func(w *e.World, st *e.Step) (*e.Account, []sdk.Msg, bool) {
			a := w.Acct(st.A)
			return a, []sdk.Msg{distrtypes.NewMsgWithdrawDelegatorReward(a.Acc, valAddr(w, st.NArg(0)))}, true
		}})
	defOp(&OpDef{Name: "set_withdraw",
		Gen: func(w *e.World, r *e.RNG) e.Step {
			return e.Step{K: "tx", Op: "set_withdraw", A: r.Intn(nAcc(w)), B: w.AnyAcct(r)}
		},
		Msgs: func(w *e.World, st *e.Step) (*e.Account, []sdk.Msg, bool) {
			a := w.Acct(st.A)
			return a, []sdk.Msg{distrtypes.NewMsgSetWithdrawAddress(a.Acc, w.Acct(st.B).Acc)}, true
		}})
	defOp(&OpDef{Name: "withdraw_comm",
		Gen: func(w *e.World, r *e.RNG) e.Step {
			return e.Step{K: "tx", Op: "withdraw_comm", A: r.Intn(len(w.Vals))}
		},
		Msgs: func(w *e.World, st *e.Step) (*e.Account, []sdk.Msg, bool) {
			a := w.Acct(st.A)
			return a, []sdk.Msg{distrtypes.NewMsgWithdrawValidatorCommission(sdk.ValAddress(a.Acc))}, true
		}})
	defOp(&OpDef{Name: "fund_pool",
		Gen: func(w *e.World, r *e.RNG) e.Step {
			return e.Step{K: "tx", Op: "fund_pool", A: r.Intn(nAcc(w)), S: []string{r.Amount(nil).String()}}
		},
		Msgs: func(w *e.World, st *e.Step) (*e.Account, []sdk.Msg, bool) {
			a := w.Acct(st.A)
			return a, []sdk.Msg{distrtypes.NewMsgFundCommunityPool(e.Native(e.BigS(st.SArg(0))), a.Acc)}, true
		}})

	// ---- authz (generic send / delegate grants)
	defOp(&OpDef{Name: "authz_grant",
		Gen: func(w *e.World, r *e.RNG) e.Step {
			return e.Step{K: "tx", Op: "authz_grant", A: r.Intn(nAcc(w)), B: r.Intn(nAcc(w)), N: []int64{int64(r.Intn(3)), r.Range(5, 5000)}}
		},
		Msgs: func(w *e.World, st *e.Step) (*e.Account, []sdk.Msg, bool) {
			a, b := w.Acct(st.A), w.Acct(st.B)
			var auth authz.Authorization
			switch st.NArg(0) {
			case 0:
				auth = authz.NewGenericAuthorization(sdk.MsgTypeURL(&banktypes.MsgSend{}))
			case 1:
				auth = authz.NewGenericAuthorization(sdk.MsgTypeURL(&stakingtypes.MsgDelegate{}))
			default:
				auth = banktypes.NewSendAuthorization(e.Native(big.NewInt(1_000_000)), nil)
			}
			exp := w.Now.Add(time.Duration(st.NArg(1)) * time.Second)
			m, err := authz.NewMsgGrant(a.Acc, b.Acc, auth, &exp)
			if err != nil {
				return nil, nil, false
			}
			return a, []sdk.Msg{m}, true
		}})
	defOp(&OpDef{Name: "authz_exec",
		Gen: func(w *e.World, r *e.RNG) e.Step {
			return e.Step{K: "tx", Op: "authz_exec", A: r.Intn(nAcc(w)), B: r.Intn(nAcc(w)), N: []int64{int64(r.Intn(2)), int64(r.Intn(len(w.Vals)))}, S: []string{r.Amount(big.NewInt(2_000_000)).String()}}
		},
		Msgs: func(w *e.World, st *e.Step) (*e.Account, []sdk.Msg, bool) {
			grantee, granter := w.Acct(st.A), w.Acct(st.B)
			var inner sdk.Msg
			if st.NArg(0) == 0 {
				inner = banktypes.NewMsgSend(granter.Acc, grantee.Acc, e.Native(e.BigS(st.SArg(0))))
			} else {
				inner = stakingtypes.NewMsgDelegate(granter.Acc, valAddr(w, st.NArg(1)), e.C(e.Denom, e.BigS(st.SArg(0))))
			}
			m := authz.NewMsgExec(grantee.Acc, []sdk.Msg{inner})
			return grantee, []sdk.Msg{&m}, true
		}})

	// ---- governance
	defOp(&OpDef{Name: "gov_submit",
		Gen: func(w *e.World, r *e.RNG) e.Step {
			kind := int64(r.Weighted([]int{3, 3, 2, 2}))
			dep := r.Amount(e.BigS(w.Cfg.GovMinDeposit))
			if r.Chance(0.6) {
				dep = e.BigS(w.Cfg.GovMinDeposit)
			}
			return e.Step{K: "tx", Op: "gov_submit", A: r.Intn(nAcc(w)), N: []int64{kind, r.Range(0, 5)}, S: []string{dep.String()}}
		},
		Msgs: func(w *e.World, st *e.Step) (*e.Account, []sdk.Msg, bool) {
			a := w.Acct(st.A)
			auth := e.ModuleAddr(govtypes.ModuleName).String()
			var msgs []sdk.Msg
			ctx := w.Ctx()
			switch st.NArg(0) {
			case 1: // fee market params
				p := w.App().FeeMarketKeeper.GetParams(ctx)
				switch st.NArg(1) % 4 {
				case 0:
					p.MinGasMultiplier = sdk.NewDecWithPrec(25+10*st.NArg(1), 2)
				case 1:
					p.ElasticityMultiplier = uint32(1 + st.NArg(1))
				case 2:
					p.BaseFeeChangeDenominator = uint32(2 + 3*st.NArg(1))
				default:
					p.MinGasPrice = sdk.NewDec(1000 * st.NArg(1))
				}
				msgs = []sdk.Msg{&feemarkettypes.MsgUpdateParams{Authority: auth, Params: p}}
			case 2: // evm params: toggle create/call, extra eips stay
				p := w.App().EvmKeeper.GetParams(ctx)
				if st.NArg(1)%2 == 0 {
					p.EnableCreate = !p.EnableCreate
				} else {
					p.AllowUnprotectedTxs = false
					p.EnableCall = true
					p.EnableCreate = true
				}
				msgs = []sdk.Msg{&evmtypes.MsgUpdateParams{Authority: auth, Params: p}}
			case 3: // coinomics legacy param change
				val := fmt.Sprintf("\"%d.500000000000000000\"", 1+st.NArg(1))
				key := string(coinomicstypes.ParamStoreKeyRewardCoefficient)
				if st.NArg(1)%3 == 0 {
					key = string(coinomicstypes.ParamStoreKeyEnableCoinomics)
					val = "true"
					if st.NArg(1)%2 == 0 {
						val = "false"
					}
				}
				content := paramproposal.NewParameterChangeProposal("p", "d", []paramproposal.ParamChange{{Subspace: coinomicstypes.ModuleName, Key: key, Value: val}})
				m, err := legacyContent(content, auth)
				if err != nil {
					return nil, nil, false
				}
				msgs = []sdk.Msg{m}
			}
			m, err := govv1.NewMsgSubmitProposal(msgs, e.Native(e.BigS(st.SArg(0))), a.Acc.String(), "ipfs://meta", "t", "s")
			if err != nil {
				return nil, nil, false
			}
			return a, []sdk.Msg{m}, true
		}})
	defOp(&OpDef{Name: "gov_deposit",
		Gen: func(w *e.World, r *e.RNG) e.Step {
			a := r.Intn(nAcc(w))
			st := e.Step{K: "tx", Op: "gov_deposit", A: a, N: []int64{int64(pickProposal(w, r))}, S: []string{r.Amount(e.BigS(w.Cfg.GovMinDeposit)).String()}}
			// sometimes a second denomination the depositor happens to hold rides along
			// (liquid-vesting tokens, extra genesis denoms): gov accepts any coin
			if r.Chance(0.35) {
				var other sdk.Coins
				for _, c := range w.App().BankKeeper.GetAllBalances(w.Ctx(), w.Acct(a).Acc) {
					if c.Denom != e.Denom && c.Amount.IsPositive() {
						other = append(other, c)
					}
				}
				if len(other) > 0 {
					c := other[r.Intn(len(other))]
					st.S = append(st.S, r.Amount(c.Amount.BigInt()).String(), c.Denom)
				}
			}
			return st
		},
		Msgs: func(w *e.World, st *e.Step) (*e.Account, []sdk.Msg, bool) {
			a := w.Acct(st.A)
			coins := e.Native(e.BigS(st.SArg(0)))
			if st.SArg(2) != "" && e.BigS(st.SArg(1)).Sign() > 0 && sdk.ValidateDenom(st.SArg(2)) == nil {
				coins = coins.Add(e.C(st.SArg(2), e.BigS(st.SArg(1))))
			}
			return a, []sdk.Msg{govv1.NewMsgDeposit(a.Acc, uint64(st.NArg(0)), coins)}, true
		}})
	defOp(&OpDef{Name: "gov_vote",
		Gen: func(w *e.World, r *e.RNG) e.Step {
			// validators' operators carry the voting power
			a := r.Intn(nAcc(w))
			if r.Chance(0.8) {
				a = r.Intn(len(w.Vals))
			}
			opt := []int64{1, 1, 1, 2, 3, 4}[r.Intn(6)]
			if w.Cfg.Flags["veto_bias"] == 1 && r.Chance(0.6) {
				opt = 4
			}
			return e.Step{K: "tx", Op: "gov_vote", A: a, N: []int64{int64(pickProposal(w, r)), opt}}
		},
		Msgs: func(w *e.World, st *e.Step) (*e.Account, []sdk.Msg, bool) {
			a := w.Acct(st.A)
			return a, []sdk.Msg{govv1.NewMsgVote(a.Acc, uint64(st.NArg(0)), govv1.VoteOption(st.NArg(1)), "")}, true
		}})

	// ---- vesting
	defOp(&OpDef{Name: "vest_create",
		Gen: func(w *e.World, r *e.RNG) e.Step {
			a := r.Intn(nAcc(w))
			b := nAcc(w) + r.Intn(e.NExtra)
			if r.Chance(0.15) {
				b = r.Intn(nAcc(w))
			}
			s := GenSched(r, w.Now.Unix(), r.Amount(e.BigS("50000000000000000000000")), r.Chance(0.4))
			s.Merge = r.Chance(0.4)
			if va := vestingAccts(w); len(va) > 0 && r.Chance(0.3) {
				// merge a further grant into an existing vesting account, as its funder
				b = va[r.Intn(len(va))]
				if f := idxOf(w, vestingAcct(w, b).FunderAddress); f >= 0 && f < nAcc(w) {
					a = f
				}
				s.Merge = true
			}
			p, _ := json.Marshal(s)
			return e.Step{K: "tx", Op: "vest_create", A: a, B: b, P: p}
		},
		Msgs: func(w *e.World, st *e.Step) (*e.Account, []sdk.Msg, bool) {
			var s Sched
			if json.Unmarshal(st.P, &s) != nil {
				return nil, nil, false
			}
			a, b := w.Acct(st.A), w.Acct(st.B)
			return a, []sdk.Msg{vestingtypes.NewMsgCreateClawbackVestingAccount(a.Acc, b.Acc, time.Unix(s.Start, 0).UTC(), s.LockP(), s.VestP(), s.Merge)}, true
		}})
	defOp(&OpDef{Name: "vest_convert_into",
		Gen: func(w *e.World, r *e.RNG) e.Step {
			a := r.Intn(nAcc(w))
			b := w.AnyAcct(r)
			s := GenSched(r, w.Now.Unix(), r.Amount(e.BigS("50000000000000000000000")), r.Chance(0.4))
			s.Merge = r.Chance(0.6)
			if va := vestingAccts(w); len(va) > 0 && r.Chance(0.3) {
				b = va[r.Intn(len(va))]
				if f := idxOf(w, vestingAcct(w, b).FunderAddress); f >= 0 && f < nAcc(w) {
					a = f
				}
				s.Merge = true
			}
			s.Stake = r.Chance(0.2)
			s.Val = r.Intn(len(w.Vals))
			p, _ := json.Marshal(s)
			return e.Step{K: "tx", Op: "vest_convert_into", A: a, B: b, P: p}
		},
		Msgs: func(w *e.World, st *e.Step) (*e.Account, []sdk.Msg, bool) {
			var s Sched
			if json.Unmarshal(st.P, &s) != nil {
				return nil, nil, false
			}
			a, b := w.Acct(st.A), w.Acct(st.B)
			return a, []sdk.Msg{vestingtypes.NewMsgConvertIntoVestingAccount(a.Acc, b.Acc, time.Unix(s.Start, 0).UTC(), s.LockP(), s.VestP(), s.Merge, s.Stake, valAddr(w, int64(s.Val)))}, true
		}})
	defOp(&OpDef{Name: "vest_clawback",
		Gen: func(w *e.World, r *e.RNG) e.Step {
			a, b := r.Intn(nAcc(w)), w.AnyAcct(r)
			if va := vestingAccts(w); len(va) > 0 && r.Chance(0.85) {
				b = va[r.Intn(len(va))]
				if f := idxOf(w, vestingAcct(w, b).FunderAddress); f >= 0 && r.Chance(0.85) {
					a = f
				}
			}
			return e.Step{K: "tx", Op: "vest_clawback", A: a, B: b, N: []int64{int64(w.AnyAcct(r)), int64(r.Intn(2))}}
		},
		Msgs: func(w *e.World, st *e.Step) (*e.Account, []sdk.Msg, bool) {
			a, b := w.Acct(st.A), w.Acct(st.B)
			var dest sdk.AccAddress
			if st.NArg(1) == 1 {
				dest = w.Acct(int(st.NArg(0))).Acc
			}
			return a, []sdk.Msg{vestingtypes.NewMsgClawback(a.Acc, b.Acc, dest)}, true
		}})
	defOp(&OpDef{Name: "vest_update_funder",
		Gen: func(w *e.World, r *e.RNG) e.Step {
			a, b := r.Intn(nAcc(w)), w.AnyAcct(r)
			if va := vestingAccts(w); len(va) > 0 && r.Chance(0.85) {
				b = va[r.Intn(len(va))]
				if f := idxOf(w, vestingAcct(w, b).FunderAddress); f >= 0 && r.Chance(0.85) {
					a = f
				}
			}
			return e.Step{K: "tx", Op: "vest_update_funder", A: a, B: b, N: []int64{int64(r.Intn(nAcc(w)))}}
		},
		Msgs: func(w *e.World, st *e.Step) (*e.Account, []sdk.Msg, bool) {
			a, b := w.Acct(st.A), w.Acct(st.B)
			return a, []sdk.Msg{vestingtypes.NewMsgUpdateVestingFunder(a.Acc, w.Acct(int(st.NArg(0))).Acc, b.Acc)}, true
		}})
	defOp(&OpDef{Name: "vest_convert_back",
		Gen: func(w *e.World, r *e.RNG) e.Step {
			a := w.AnyAcct(r)
			if va := vestingAccts(w); len(va) > 0 && r.Chance(0.85) {
				a = va[r.Intn(len(va))]
			}
			return e.Step{K: "tx", Op: "vest_convert_back", A: a}
		},
		Msgs: func(w *e.World, st *e.Step) (*e.Account, []sdk.Msg, bool) {
			a := w.Acct(st.A)
			return a, []sdk.Msg{vestingtypes.NewMsgConvertVestingAccount(a.Acc)}, true
		}})

	// ---- liquid vesting
	defOp(&OpDef{Name: "lv_liquidate",
		Gen: func(w *e.World, r *e.RNG) e.Step {
			a := w.AnyAcct(r)
			max := w.Balance(w.Acct(a).Acc)
			if va := vestingAccts(w); len(va) > 0 && r.Chance(0.9) {
				a = va[r.Intn(len(va))]
				max = vestingAcct(w, a).GetLockedUpCoins(w.Now).AmountOf(e.Denom).BigInt()
			}
			b := w.AnyAcct(r)
			if r.Chance(0.4) {
				b = a
			}
			return e.Step{K: "tx", Op: "lv_liquidate", A: a, B: b, S: []string{r.Amount(max).String()}}
		},
		Msgs: func(w *e.World, st *e.Step) (*e.Account, []sdk.Msg, bool) {
			a, b := w.Acct(st.A), w.Acct(st.B)
			return a, []sdk.Msg{liquidvestingtypes.NewMsgLiquidate(a.Acc, b.Acc, e.C(e.Denom, e.BigS(st.SArg(0))))}, true
		}})
	defOp(&OpDef{Name: "lv_redeem",
		Gen: func(w *e.World, r *e.RNG) e.Step {
			a := w.AnyAcct(r)
			d := fmt.Sprintf("aLIQUID%d", r.Intn(4))
			if ds := liquidDenoms(w); len(ds) > 0 && r.Chance(0.9) {
				d = ds[r.Intn(len(ds))]
				for _, i := range allIdx(w) {
					if liquidHolding(w, i, d).Sign() > 0 && r.Chance(0.6) {
						a = i
						break
					}
				}
			}
			return e.Step{K: "tx", Op: "lv_redeem", A: a, B: w.AnyAcct(r), S: []string{d, r.Amount(liquidHolding(w, a, d)).String()}}
		},
		Msgs: func(w *e.World, st *e.Step) (*e.Account, []sdk.Msg, bool) {
			a, b := w.Acct(st.A), w.Acct(st.B)
			return a, []sdk.Msg{liquidvestingtypes.NewMsgRedeem(a.Acc, b.Acc, e.C(st.SArg(0), e.BigS(st.SArg(1))))}, true
		}})

	// ---- DAO
	defOp(&OpDef{Name: "dao_fund",
		Gen: func(w *e.World, r *e.RNG) e.Step {
			return e.Step{K: "tx", Op: "dao_fund", A: r.Intn(nAcc(w)), S: []string{e.Denom, r.Amount(nil).String()}}
		},
		Msgs: func(w *e.World, st *e.Step) (*e.Account, []sdk.Msg, bool) {
			a := w.Acct(st.A)
			cs, ok := parseCoins(st.S)
			if !ok {
				return nil, nil, false
			}
			return a, []sdk.Msg{&ucdaotypes.MsgFund{Amount: cs, Depositor: a.Acc.String()}}, true
		}})
	defOp(&OpDef{Name: "dao_xfer",
		Gen: func(w *e.World, r *e.RNG) e.Step {
			return e.Step{K: "tx", Op: "dao_xfer", A: r.Intn(nAcc(w)), B: w.AnyAcct(r), S: []string{[]string{"1", "0.5", "0.25"}[r.Intn(3)]}}
		},
		Msgs: func(w *e.World, st *e.Step) (*e.Account, []sdk.Msg, bool) {
			a, b := w.Acct(st.A), w.Acct(st.B)
			ratio, err := sdk.NewDecFromStr(st.SArg(0))
			if err != nil {
				return nil, nil, false
			}
			return a, []sdk.Msg{ucdaotypes.NewMsgTransferOwnershipWithRatio(a.Acc, b.Acc, ratio)}, true
		}})

	// ---- ERC20 conversion of liquid denoms (pairs registered by liquidate)
	defOp(&OpDef{Name: "erc20_convert_coin",
		Gen: func(w *e.World, r *e.RNG) e.Step {
			a := w.AnyAcct(r)
			d := fmt.Sprintf("aLIQUID%d", r.Intn(4))
			if ds := liquidDenoms(w); len(ds) > 0 && r.Chance(0.9) {
				d = ds[r.Intn(len(ds))]
				for _, i := range allIdx(w) {
					if w.App().BankKeeper.GetBalance(w.Ctx(), w.Acct(i).Acc, d).Amount.IsPositive() && r.Chance(0.7) {
						a = i
						break
					}
				}
			}
			max := w.App().BankKeeper.GetBalance(w.Ctx(), w.Acct(a).Acc, d).Amount.BigInt()
			return e.Step{K: "tx", Op: "erc20_convert_coin", A: a, B: w.AnyAcct(r), S: []string{d, r.Amount(max).String()}}
		},
		Msgs: func(w *e.World, st *e.Step) (*e.Account, []sdk.Msg, bool) {
			a, b := w.Acct(st.A), w.Acct(st.B)
			return a, []sdk.Msg{erc20types.NewMsgConvertCoin(e.C(st.SArg(0), e.BigS(st.SArg(1))), b.Eth, a.Acc)}, true
		}})
	defOp(&OpDef{Name: "erc20_convert_erc20",
		Gen: func(w *e.World, r *e.RNG) e.Step {
			a := w.AnyAcct(r)
			d := fmt.Sprintf("aLIQUID%d", r.Intn(4))
			max := e.BigS("1000000000000000000000")
			if ds := liquidDenoms(w); len(ds) > 0 && r.Chance(0.9) {
				d = ds[r.Intn(len(ds))]
				for _, i := range allIdx(w) {
					if h := liquidHolding(w, i, d); h.Sign() > 0 && r.Chance(0.6) {
						a, max = i, h
						break
					}
				}
			}
			return e.Step{K: "tx", Op: "erc20_convert_erc20", A: a, B: w.AnyAcct(r), S: []string{d, r.Amount(max).String()}}
		},
		Msgs: func(w *e.World, st *e.Step) (*e.Account, []sdk.Msg, bool) {
			a, b := w.Acct(st.A), w.Acct(st.B)
			ctx := w.Ctx()
			id := w.App().Erc20Keeper.GetTokenPairID(ctx, st.SArg(0))
			pair, ok := w.App().Erc20Keeper.GetTokenPair(ctx, id)
			if !ok {
				return nil, nil, false
			}
			return a, []sdk.Msg{erc20types.NewMsgConvertERC20(sdkmath.NewIntFromBigInt(e.BigS(st.SArg(1))), b.Acc, pair.GetERC20Contract(), a.Eth)}, true
		}})

	// ---- plain Ethereum value transfer (legacy / access list / dynamic fee)
	defOp(&OpDef{Name: "multi_send",
		Gen: func(w *e.World, r *e.RNG) e.Step {
			a := r.Intn(nAcc(w))
			amt := r.Amount(w.Balance(w.Acct(a).Acc))
			return e.Step{K: "tx", Op: "multi_send", A: a, B: w.AnyAcct(r), N: []int64{int64(w.AnyAcct(r))}, S: []string{amt.String(), r.Amount(amt).String()}}
		},
		Msgs: func(w *e.World, st *e.Step) (*e.Account, []sdk.Msg, bool) {
			a, b, c := w.Acct(st.A), w.Acct(st.B), w.Acct(int(st.NArg(0))%(len(w.Accts)+e.NExtra))
			total, part := e.BigS(st.SArg(0)), e.BigS(st.SArg(1))
			if part.Cmp(total) > 0 || total.Sign() <= 0 {
				return nil, nil, false
			}
			outs := []banktypes.Output{banktypes.NewOutput(b.Acc, e.Native(new(big.Int).Sub(total, part)))}
			if part.Sign() > 0 {
				outs = append(outs, banktypes.NewOutput(c.Acc, e.Native(part)))
			}
			if new(big.Int).Sub(total, part).Sign() == 0 {
				outs = outs[1:]
			}
			return a, []sdk.Msg{banktypes.NewMsgMultiSend([]banktypes.Input{banktypes.NewInput(a.Acc, e.Native(total))}, outs)}, true
		}})
	// the staking precompile called directly by the account (an Ethereum tx): another way to move one's coins
	defOp(&OpDef{Name: "eth_pc_delegate",
		Gen: func(w *e.World, r *e.RNG) e.Step {
			a := w.AnyAcct(r)
			return e.Step{K: "tx", Op: "eth_pc_delegate", A: a, N: []int64{int64(r.Intn(len(w.Vals)))}, S: []string{r.Amount(w.Balance(w.Acct(a).Acc)).String()}}
		},
		Eth: func(w *e.World, st *e.Step) (*e.Account, e.EthArgs, bool) {
			a := w.Acct(st.A)
			data, err := loadABI("staking").Pack("delegate", a.Eth, valAddr(w, st.NArg(0)).String(), e.BigS(st.SArg(0)))
			if err != nil {
				return nil, e.EthArgs{}, false
			}
			to := addrStaking
			return a, e.EthArgs{Type: 2, To: &to, Data: data, Gas: 600_000}, true
		}})
	defOp(&OpDef{Name: "eth_transfer",
		Gen: func(w *e.World, r *e.RNG) e.Step {
			a := w.AnyAcct(r)
			return e.Step{K: "tx", Op: "eth_transfer", A: a, B: w.AnyAcct(r), N: []int64{int64(r.Intn(3)), r.Range(21000, 60000)}, S: []string{r.Amount(w.Balance(w.Acct(a).Acc)).String()}}
		},
		Eth: func(w *e.World, st *e.Step) (*e.Account, e.EthArgs, bool) {
			a, b := w.Acct(st.A), w.Acct(st.B)
			to := common.Address(b.Eth)
			return a, e.EthArgs{Type: int(st.NArg(0)), To: &to, Value: e.BigS(st.SArg(0)), Gas: uint64(st.NArg(1))}, true
		}})
}

// evmGovMsgs builds the messages of an EVM-parameter governance proposal.
// kind 0: change the active precompile set (drop one while all are active,
// otherwise swap one in and one out, keeping the count); 1: move the London
// fork block (far future / back to 0); 2: as 1 but followed by a message that
// fails, so the whole proposal is rolled back; 3: toggle create/call.
// UpgradeNames: registered upgrade handlers that are safe to run on a state
// created by the current binary (module migrations are no-ops there; the
// handler-specific work re-applies parameters or re-computes tracking data).
var UpgradeNames = []string{"v1.8.0", "v1.8.2", "v1.8.1", "v1.7.8", "v1.7.7"}

func evmGovMsgs(w *e.World, kind, arg int64) []sdk.Msg {
	ctx := w.Ctx()
	auth := e.ModuleAddr(govtypes.ModuleName).String()
	p := w.App().EvmKeeper.GetParams(ctx)
	switch kind {
	case 0:
		all := evmtypes.AvailableEVMExtensions
		active := map[string]bool{}
		for _, a := range p.ActivePrecompiles {
			active[a] = true
		}
		var inactive []string
		for _, a := range all {
			if !active[a] {
				inactive = append(inactive, a)
			}
		}
		if len(p.ActivePrecompiles) == 0 {
			return nil
		}
		drop := p.ActivePrecompiles[int(arg)%len(p.ActivePrecompiles)]
		var next []string
		for _, a := range p.ActivePrecompiles {
			if a != drop {
				next = append(next, a)
			}
		}
		if len(inactive) > 0 {
			next = append(next, inactive[int(arg)%len(inactive)])
		}
		sort.Strings(next)
		p.ActivePrecompiles = next
	case 1, 2:
		blk := sdkmath.NewInt(0)
		if arg%2 == 0 {
			blk = sdkmath.NewInt(1_000_000_000)
		}
		p.ChainConfig.LondonBlock = &blk
		p.ChainConfig.ArrowGlacierBlock = &blk
		p.ChainConfig.GrayGlacierBlock = &blk
		p.ChainConfig.MergeNetsplitBlock = &blk
		p.ChainConfig.ShanghaiBlock = &blk
		p.ChainConfig.CancunBlock = &blk
	case 5:
		// a software-upgrade plan for one of the handlers the binary registers; it is
		// applied in BeginBlock of the plan height by every replica (in-process upgrade)
		names := UpgradeNames
		// (the SDK refuses to run a binary that already has the handler of a plan
		// still in the future, so the plan height is the block right after the one in
		// whose EndBlock the proposal passes; the step makes the voting period elapse)
		name := names[int(arg)%len(names)]
		if name == "v1.8.0" {
			// a one-off main-net repair: it lowers the DAO's recorded aISLM total by 20 ISLM
			// without moving coins. Only where the DAO ledger is not under test (C01,
			// C20) and only when the DAO records at least that much.
			if w.Cfg.Flags["allow_v180"] != 1 || w.App().DaoKeeper.GetTotalBalanceOf(ctx, e.Denom).Amount.BigInt().Cmp(e.BigS("20000000000000000000")) < 0 {
				name = "v1.8.2"
			}
		}
		plan := upgradetypes.Plan{Name: name, Height: w.Height + 2, Info: "sim"}
		if done := w.App().UpgradeKeeper.GetDoneHeight(ctx, plan.Name); done > 0 {
			return nil
		}
		return []sdk.Msg{&upgradetypes.MsgSoftwareUpgrade{Authority: auth, Plan: plan}}
	case 4:
		pairs := w.App().Erc20Keeper.GetTokenPairs(ctx)
		if len(pairs) == 0 {
			return nil
		}
		c, err := legacyContent(erc20types.NewToggleTokenConversionProposal("t", "d", pairs[int(arg)%len(pairs)].Denom), auth)
		if err != nil {
			return nil
		}
		return []sdk.Msg{c}
	default:
		if arg%2 == 0 {
			p.EnableCreate = !p.EnableCreate
		} else {
			p.EnableCall = !p.EnableCall
		}
	}
	if p.Validate() != nil {
		return nil
	}
	msgs := []sdk.Msg{&evmtypes.MsgUpdateParams{Authority: auth, Params: p}}
	if kind == 2 {
		msgs = append(msgs, banktypes.NewMsgSend(e.ModuleAddr(govtypes.ModuleName), w.Acct(0).Acc, e.Native(e.BigS("1000000000000000000000000000000000000"))))
	}
	return msgs
}

func init() {
	// transactions whose outcome depends on EVM parameters (active precompiles, fork rules)
	defOp(&OpDef{Name: "eth_probe",
		Gen: func(w *e.World, r *e.RNG) e.Step {
			return e.Step{K: "tx", Op: "eth_probe", A: r.Intn(nAcc(w)), B: w.AnyAcct(r), N: []int64{int64(r.Intn(7))}}
		},
		Eth: func(w *e.World, st *e.Step) (*e.Account, e.EthArgs, bool) {
			a, b := w.Acct(st.A), w.Acct(st.B)
			args := e.EthArgs{Type: 2, Gas: 300_000}
			// while London is scheduled in the future dynamic-fee txs are refused by every
			// node alike; a legacy tx still reaches the EVM
			if lb := w.App().EvmKeeper.GetParams(w.Ctx()).ChainConfig.LondonBlock; lb != nil && lb.Int64() > w.Height {
				args.Type = 0
			}
			switch st.NArg(0) {
			case 0: // bech32 precompile
				to := common.HexToAddress("0x0000000000000000000000000000000000000400")
				data, err := loadABI("bech32").Pack("hexToBech32", b.Eth, "haqq")
				if err != nil {
					return nil, args, false
				}
				args.To, args.Data = &to, data
			case 1: // p256 precompile (160 bytes; an invalid signature returns empty data)
				to := common.HexToAddress("0x0000000000000000000000000000000000000100")
				args.To, args.Data = &to, make([]byte, 160)
			case 2: // creation code that executes BASEFEE (London)
				args.Data = []byte{0x48, 0x50, 0x00}
			case 5: // constructor stores a value and returns no code: an account with storage but no code
				args.Data = []byte{0x60, 0x2a, 0x60, 0x01, 0x55, 0x00}
				noteContract(w, a)
			case 6: // ordinary small contract with storage (Storer deployed and initialised by its constructor)
				args.Data = append([]byte{0x60, 0x07, 0x60, 0x02, 0x55}, evmprog.Deployer(evmprog.Storer())...)
				noteContract(w, a)
			case 3: // staking precompile view
				to := common.HexToAddress("0x0000000000000000000000000000000000000800")
				data, err := loadABI("staking").Pack("delegation", a.Eth, valString(w, 0))
				if err != nil {
					return nil, args, false
				}
				args.To, args.Data = &to, data
			default: // legacy-priced plain call
				to := b.Eth
				args.Type = 0
				args.To = &to
			}
			return a, args, true
		}})
}

// noteContract remembers the address a creation tx of account a will produce
// (profiles that compare EVM state across export/import or restarts query it).
func noteContract(w *e.World, a *e.Account) {
	addr := crypto.CreateAddress(a.Eth, w.EthNonce(a.Eth))
	l, _ := w.Ext["contracts"].([]common.Address)
	if len(l) < 12 {
		w.Ext["contracts"] = append(l, addr)
	}
}

func legacyContent(c govv1beta1.Content, authority string) (sdk.Msg, error) {
	m, err := govv1.NewLegacyContent(c, authority)
	if err != nil {
		return nil, err
	}
	return m, nil
}

func pickProposal(w *e.World, r *e.RNG) int {
	ps := w.App().GovKeeper.GetProposals(w.Ctx())
	var live []int
	for _, p := range ps {
		if p.Status == govv1.StatusDepositPeriod || p.Status == govv1.StatusVotingPeriod {
			live = append(live, int(p.Id))
		}
	}
	if len(live) == 0 || r.Chance(0.05) {
		return 1 + r.Intn(len(ps)+2)
	}
	return live[r.Intn(len(live))]
}

// ExecOp executes a "tx" step of the op library; ok=false if the op is unknown
// or not executable (e.g. after shrinking removed a prerequisite).
func ExecOp(w *e.World, st *e.Step) (e.TxResult, bool) {
	o, ok := Ops[st.Op]
	if !ok {
		return e.TxResult{}, false
	}
	if o.Msgs != nil {
		a, msgs, ok := o.Msgs(w, st)
		if !ok {
			return e.TxResult{}, false
		}
		opts := e.TxOpts{EIP712: st.Net == "eip712", EIP712Direct: st.Net == "eip712d"}
		if st.Op == "lv_liquidate" {
			// liquidation deploys an ERC20 contract: more than the default 3M gas
			opts.Gas = 9_000_000
			if mg := w.Cfg.BlockMaxGas; mg > 0 && int64(opts.Gas) > mg {
				opts.Gas = uint64(mg)
			}
		}
		if w.Cfg.Flag("byz_basic") == 0 {
			// honest path: a tx whose messages fail stateless validation never leaves
			// the client / never passes CheckTx. With the byz_basic flag a byzantine
			// proposer includes such txs in blocks anyway.
			for _, m := range msgs {
				if m.ValidateBasic() != nil {
					w.Stats.Op(st.Op+"/basic-invalid-not-sent", false)
					return e.TxResult{}, false
				}
			}
		} else {
			w.Stats.Fault("byzantine_proposer_unchecked_tx")
		}
		res, err := w.DoCosmos(a, opts, msgs...)
		if err != nil {
			return e.TxResult{}, false
		}
		w.Stats.Op(st.Op, res.Code == 0)
		if dbg := os.Getenv("HAQQSIM_OPLOG"); dbg != "" && (dbg == st.Op || dbg == "vesting") {
			fmt.Fprintf(os.Stderr, "OPLOG %s code=%d %s\n", st.Op, res.Code, trunc(res.Log, 240))
			if dbg == "vesting" {
				for _, i := range vestingAccts(w) {
					va := vestingAcct(w, i)
					fmt.Fprintf(os.Stderr, "   acct %d now=%d start=%d end=%d orig=%s lock=%v vest=%v delFree=%s delVest=%s\n", i, w.Now.Unix(), va.StartTime.Unix(), va.EndTime, va.OriginalVesting, va.LockupPeriods, va.VestingPeriods, va.DelegatedFree, va.DelegatedVesting)
				}
			}
		}
		return res, true
	}
	a, args, ok := o.Eth(w, st)
	if !ok {
		return e.TxResult{}, false
	}
	res, err := w.DoEth(a, args)
	if err != nil {
		return e.TxResult{}, false
	}
	w.Stats.Op(st.Op, res.Code == 0)
	return res, true
}
