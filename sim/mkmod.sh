#!/bin/bash
# Generates sim/go.mod + go.sum from /repo/go.mod (requires/replaces are copied: replace
# directives are not inherited from a dependency).
set -e
REPO=${HAQQ_REPO:-/repo}
cd "$(dirname "$0")"
{
  sed -e 's#^module github.com/haqq-network/haqq$#module haqqsim#' "$REPO/go.mod"
  echo
  echo "require github.com/haqq-network/haqq v0.0.0"
  echo "replace github.com/haqq-network/haqq => $REPO"
} > go.mod.new
if ! cmp -s go.mod.new go.mod 2>/dev/null; then mv go.mod.new go.mod; else rm go.mod.new; fi
cp "$REPO/go.sum" go.sum
