package engine

import (
	"bytes"
	"crypto/sha256"
	"encoding/hex"
	"encoding/json"
	"fmt"
	"math/big"
	"runtime/debug"
	"sort"
	"time"

	sdkmath "cosmossdk.io/math"
	simappparams "cosmossdk.io/simapp/params"
	abci "github.com/cometbft/cometbft/abci/types"
	tmed "github.com/cometbft/cometbft/crypto/ed25519"
	"github.com/cometbft/cometbft/libs/log"
	tmproto "github.com/cometbft/cometbft/proto/tendermint/types"
	"github.com/cosmos/cosmos-sdk/baseapp"
	codectypes "github.com/cosmos/cosmos-sdk/codec/types"
	cryptocodec "github.com/cosmos/cosmos-sdk/crypto/codec"
	sdked "github.com/cosmos/cosmos-sdk/crypto/keys/ed25519"
	pruningtypes "github.com/cosmos/cosmos-sdk/store/pruning/types"
	"github.com/cosmos/cosmos-sdk/store/rootmulti"
	simtestutil "github.com/cosmos/cosmos-sdk/testutil/sims"
	sdk "github.com/cosmos/cosmos-sdk/types"
	authtypes "github.com/cosmos/cosmos-sdk/x/auth/types"
	banktypes "github.com/cosmos/cosmos-sdk/x/bank/types"
	crisistypes "github.com/cosmos/cosmos-sdk/x/crisis/types"
	distrtypes "github.com/cosmos/cosmos-sdk/x/distribution/types"
	govtypes "github.com/cosmos/cosmos-sdk/x/gov/types"
	govv1 "github.com/cosmos/cosmos-sdk/x/gov/types/v1"
	slashingtypes "github.com/cosmos/cosmos-sdk/x/slashing/types"
	stakingtypes "github.com/cosmos/cosmos-sdk/x/staking/types"
	"github.com/ethereum/go-ethereum/common"
	"github.com/ethereum/go-ethereum/crypto"

	"github.com/haqq-network/haqq/app"
	"github.com/haqq-network/haqq/crypto/ethsecp256k1"
	"github.com/haqq-network/haqq/encoding"
	haqqtypes "github.com/haqq-network/haqq/types"
	coinomicstypes "github.com/haqq-network/haqq/x/coinomics/types"
	evmtypes "github.com/haqq-network/haqq/x/evm/types"
	feemarkettypes "github.com/haqq-network/haqq/x/feemarket/types"
	liquidvestingtypes "github.com/haqq-network/haqq/x/liquidvesting/types"
)

const Denom = "aISLM"

// Config holds every swarm draw of one run. It is written into the replay file
// so that replay does not depend on the PRNG.
type Config struct {
	ChainID     string `json:"chain_id"`
	NVals       int    `json:"n_vals"`
	NAccts      int    `json:"n_accts"`
	Replicas    int    `json:"replicas"`
	GenesisUnix int64  `json:"genesis_unix"`

	NoBaseFee       bool   `json:"no_base_fee"`
	BaseFee         string `json:"base_fee"`
	MinGasPrice     string `json:"min_gas_price"` // decimal string
	MinGasMult      string `json:"min_gas_mult"`  // decimal string
	Elasticity      uint32 `json:"elasticity"`
	ChangeDenom     uint32 `json:"change_denom"`
	BlockMaxGas     int64  `json:"block_max_gas"`
	FeeEnableHeight int64  `json:"fee_enable_height,omitempty"`
	UnbondingSecs   int64  `json:"unbonding_secs"`

	SlashWindow      int64  `json:"slash_window"`
	MinSigned        string `json:"min_signed"`
	SlashDowntime    string `json:"slash_downtime"`
	SlashDoubleSign  string `json:"slash_double_sign"`
	DowntimeJailSecs int64  `json:"downtime_jail_secs"`

	GovVotingSecs   int64  `json:"gov_voting_secs"`
	GovMinDeposit   string `json:"gov_min_deposit"`
	BurnVoteQuorum  bool   `json:"burn_vote_quorum"`
	BurnVoteVeto    bool   `json:"burn_vote_veto"`
	BurnPropDeposit bool   `json:"burn_prop_deposit_prevote"`

	Coinomics   bool   `json:"coinomics"`
	RewardCoeff string `json:"reward_coeff"`
	MaxSupply   string `json:"max_supply"`
	LVMinimum   string `json:"lv_minimum"`

	AcctBalance string `json:"acct_balance"`
	ValStake    string `json:"val_stake"`
	CommRate    string `json:"comm_rate"`
	// ExtraDenoms are additional denominations every account holds at genesis.
	ExtraDenoms []string `json:"extra_denoms,omitempty"`

	// ReplicaOpts[i] are the node-local options of replica i.
	ReplicaOpts []ReplicaOpts `json:"replica_opts,omitempty"`
	// Flags are profile-specific swarm toggles / weights.
	Flags map[string]int64 `json:"flags,omitempty"`
}

// ReplicaOpts are node-local settings that must not influence consensus state.
type ReplicaOpts struct {
	MinGasPrices   string `json:"min_gas_prices,omitempty"`
	MaxTxGasWanted uint64 `json:"max_tx_gas_wanted,omitempty"`
	Pruning        string `json:"pruning,omitempty"`
	IAVLCache      int    `json:"iavl_cache,omitempty"`
	InvCheckPeriod uint   `json:"inv_check_period,omitempty"`
	Tracer         string `json:"tracer,omitempty"`
}

func (c *Config) Flag(name string) int64 {
	if c.Flags == nil {
		return 0
	}
	return c.Flags[name]
}

// DefaultConfig is the base every profile starts from.
func DefaultConfig() Config {
	return Config{
		ChainID: "haqq_121799-1", NVals: 2, NAccts: 6, Replicas: 1,
		GenesisUnix: 1_700_000_000,
		NoBaseFee:   false, BaseFee: "1000000000", MinGasPrice: "0", MinGasMult: "0.5",
		Elasticity: 2, ChangeDenom: 8, BlockMaxGas: -1, UnbondingSecs: 3600,
		SlashWindow: 8, MinSigned: "0.5", SlashDowntime: "0.01", SlashDoubleSign: "0.05", DowntimeJailSecs: 60,
		GovVotingSecs: 40, GovMinDeposit: "1000000", BurnVoteQuorum: false, BurnVoteVeto: true,
		Coinomics: false, RewardCoeff: "7.8", MaxSupply: "100000000000000000000000000000",
		LVMinimum:   "1000000",
		AcctBalance: "1000000000000000000000000", ValStake: "1000000000000000000000", CommRate: "0.1",
		Flags: map[string]int64{},
	}
}

type Account struct {
	Priv *ethsecp256k1.PrivKey
	Eth  common.Address
	Acc  sdk.AccAddress
}

type Validator struct {
	Priv     tmed.PrivKey
	ConsAddr []byte
	PubKey   []byte
	Operator int // account index
	ValAddr  sdk.ValAddress
}

type Replica struct {
	ID   int
	App  *app.Haqq
	DB   *SimDB
	Opts ReplicaOpts
	// restart bookkeeping
	Restarts int
	// Stalled replicas do not take part in block execution until they catch up
	// from the block log (a lagging node / a late joiner).
	Stalled bool
	Height  int64 // last committed height
	// FirstBegin is the height of the first BeginBlock this process executed
	// (0 = none yet since the last (re)start).
	FirstBegin int64
}

func (r *Replica) live() bool { return r.App != nil && !r.Stalled }

// LoggedBlock is what the consensus stub's block store keeps of a committed
// block: inputs, and the results agreed on (those of replica 0).
type LoggedBlock struct {
	Req     abci.RequestBeginBlock
	Txs     [][]byte
	Results []TxResult
	ValUpd  string
	AppHash []byte
}

// TxResult is what the comparator and the oracles see of one DeliverTx.
type TxResult struct {
	Code      uint32
	Codespace string
	Data      []byte
	GasWanted int64
	GasUsed   int64
	Log       string
	Events    []abci.Event
}

// World is the whole simulated system of one run.
type World struct {
	Cfg      Config
	Enc      simappparams.EncodingConfig
	Reps     []*Replica
	Accts    []*Account
	Vals     []*Validator
	Height   int64
	Now      time.Time
	PrevTime time.Time // time of the last committed block
	Header   tmproto.Header

	// consensus stub: validator set model. valPower maps hex(pubkey) to power.
	curVals  map[string]int64 // set that signs the block currently open
	nextVals map[string]int64 // set for the following block
	pendVals map[string]int64 // set after that (updates of EndBlock(H) act at H+2)
	valByPub map[string]*Validator

	BlockTxs      [][]byte // txs delivered in the open block (for mid-block restarts)
	BlockRes      []TxResult
	BlockReq      abci.RequestBeginBlock
	LastResult    TxResult
	InBlock       bool
	LastEndEvents []abci.Event  // events of the last EndBlock (replica 0)
	BlockLog      []LoggedBlock // block store: index i holds height i+1
	KeepLog       bool
	// OnBoundary is called between Commit of block H and BeginBlock of H+1.
	OnBoundary func(w *World) *Violation
	genesis    []byte

	Stats   *Stats
	Halted  bool // the chain halted in an analysed, SDK-owned way (runner.go AnalysedHalts)
	Trace   *Trace
	Diverge *Violation // set by the replica comparator

	// Ext is profile-private model state.
	Ext map[string]any

	extras map[int]*Account
}

// Acct returns account i. Indices >= NAccts denote "extra" identities that do
// not exist at genesis (fresh recipients, vesting accounts created by messages).
func (w *World) Acct(i int) *Account {
	if i < 0 {
		i = -i
	}
	if i < len(w.Accts) {
		return w.Accts[i]
	}
	if w.extras == nil {
		w.extras = map[int]*Account{}
	}
	if a, ok := w.extras[i]; ok {
		return a
	}
	a := NewAccount(KeySeed, i)
	w.extras[i] = a
	return a
}

// NExtra is the number of extra identities profiles draw from.
const NExtra = 4

// AnyAcct draws an account index over genesis accounts and extras.
func (w *World) AnyAcct(r *RNG) int { return r.Intn(len(w.Accts) + NExtra) }

func keyMaterial(seed uint64, role string, i int) []byte {
	h := sha256.Sum256(append(append(u64b(seed), []byte(role)...), u64b(uint64(i))...))
	return h[:]
}

// NewAccount derives account i's key from the seed (never crypto/rand).
func NewAccount(keySeed uint64, i int) *Account {
	k := keyMaterial(keySeed, "acct", i)
	priv := &ethsecp256k1.PrivKey{Key: k}
	ecdsaKey, err := priv.ToECDSA()
	if err != nil {
		panic(err)
	}
	addr := crypto.PubkeyToAddress(ecdsaKey.PublicKey)
	return &Account{Priv: priv, Eth: addr, Acc: sdk.AccAddress(addr.Bytes())}
}

func newValidator(keySeed uint64, i int) *Validator {
	priv := tmed.GenPrivKeyFromSecret(keyMaterial(keySeed, "val", i))
	pub := priv.PubKey()
	return &Validator{Priv: priv, ConsAddr: pub.Address(), PubKey: pub.Bytes(), Operator: i}
}

func mustInt(s string) sdkmath.Int {
	v, ok := sdkmath.NewIntFromString(s)
	if !ok {
		panic("bad int " + s)
	}
	return v
}

func mustDec(s string) sdk.Dec { return sdk.MustNewDecFromStr(s) }

// KeySeed is fixed: account identities are the same in every run so that
// replay files and findings are readable; everything else varies per run.
const KeySeed = 0x48415151

// NewWorld builds the genesis, constructs the replicas, runs InitChain on each
// and opens block 1.
func NewWorld(cfg Config) (*World, error) {
	w := &World{Cfg: cfg, Stats: NewStats(), Trace: NewTrace(), Ext: map[string]any{}, Enc: encoding.MakeConfig(app.ModuleBasics)}
	w.valByPub = map[string]*Validator{}
	for i := 0; i < cfg.NAccts; i++ {
		w.Accts = append(w.Accts, NewAccount(KeySeed, i))
	}
	if cfg.NVals > cfg.NAccts {
		return nil, fmt.Errorf("need at least as many accounts as validators")
	}
	for i := 0; i < cfg.NVals; i++ {
		v := newValidator(KeySeed, i)
		v.ValAddr = sdk.ValAddress(w.Accts[i].Acc)
		w.Vals = append(w.Vals, v)
		w.valByPub[hex.EncodeToString(v.PubKey)] = v
	}
	gen, err := w.buildGenesis()
	if err != nil {
		return nil, err
	}
	w.genesis = gen
	w.KeepLog = cfg.Replicas > 1
	for i := 0; i < cfg.Replicas; i++ {
		var o ReplicaOpts
		if i < len(cfg.ReplicaOpts) {
			o = cfg.ReplicaOpts[i]
		}
		r := &Replica{ID: i, DB: NewSimDB(), Opts: o}
		r.DB.Phase = "init"
		r.App = w.newApp(r)
		w.Reps = append(w.Reps, r)
	}
	w.Now = time.Unix(cfg.GenesisUnix, 0).UTC()
	var first abci.ResponseInitChain
	for i, r := range w.Reps {
		var res abci.ResponseInitChain
		if err := w.safely(r, "init", func() { res = r.App.InitChain(w.initChainReq(gen)) }); err != nil {
			return nil, err
		}
		if i == 0 {
			first = res
		}
	}
	w.curVals = map[string]int64{}
	for _, vu := range first.Validators {
		w.curVals[hex.EncodeToString(vu.PubKey.GetEd25519())] = vu.Power
	}
	w.nextVals = copyVals(w.curVals)
	w.pendVals = copyVals(w.curVals)
	w.Height = 0
	if err := w.beginBlock(1*time.Second, BlockFaults{}); err != nil {
		return nil, err
	}
	return w, nil
}

func (w *World) initChainReq(gen []byte) abci.RequestInitChain {
	cp := *app.DefaultConsensusParams
	blk := *cp.Block
	blk.MaxGas = w.Cfg.BlockMaxGas
	cp.Block = &blk
	return abci.RequestInitChain{
		ChainId:         w.Cfg.ChainID,
		Time:            time.Unix(w.Cfg.GenesisUnix, 0).UTC(),
		Validators:      []abci.ValidatorUpdate{},
		ConsensusParams: &cp,
		AppStateBytes:   gen,
		InitialHeight:   1,
	}
}

func copyVals(m map[string]int64) map[string]int64 {
	c := make(map[string]int64, len(m))
	for k, v := range m {
		c[k] = v
	}
	return c
}

type appOptions map[string]interface{}

func (m appOptions) Get(k string) interface{} { return m[k] }

func (w *World) newApp(r *Replica) *app.Haqq {
	enc := encoding.MakeConfig(app.ModuleBasics)
	base := simtestutil.NewAppOptionsWithFlagHome(app.DefaultNodeHome)
	opts := appOptions{"home": base.Get("home")}
	if r.Opts.MaxTxGasWanted != 0 {
		opts["evm.max-tx-gas-wanted"] = r.Opts.MaxTxGasWanted
	}
	if r.Opts.Tracer != "" {
		opts["evm.tracer"] = r.Opts.Tracer
	}
	bopts := []func(*baseapp.BaseApp){baseapp.SetChainID(w.Cfg.ChainID)}
	if r.Opts.MinGasPrices != "" {
		bopts = append(bopts, baseapp.SetMinGasPrices(r.Opts.MinGasPrices))
	}
	switch r.Opts.Pruning {
	case "everything":
		bopts = append(bopts, baseapp.SetPruning(pruningtypes.NewPruningOptions(pruningtypes.PruningEverything)))
	case "default":
		bopts = append(bopts, baseapp.SetPruning(pruningtypes.NewPruningOptions(pruningtypes.PruningDefault)))
	case "custom":
		bopts = append(bopts, baseapp.SetPruning(pruningtypes.NewCustomPruningOptions(3, 10)))
	}
	if r.Opts.IAVLCache != 0 {
		bopts = append(bopts, baseapp.SetIAVLCacheSize(r.Opts.IAVLCache))
	}
	r.FirstBegin = 0
	return app.NewHaqq(log.NewNopLogger(), r.DB, nil, true, map[int64]bool{}, app.DefaultNodeHome,
		r.Opts.InvCheckPeriod, enc, opts, bopts...)
}

func (w *World) buildGenesis() ([]byte, error) {
	cfg := w.Cfg
	enc := encoding.MakeConfig(app.ModuleBasics)
	cdc := enc.Codec
	gs := app.NewDefaultGenesisState()

	bal := mustInt(cfg.AcctBalance)
	stake := mustInt(cfg.ValStake)
	emptyCodeHash := crypto.Keccak256Hash(nil).String()
	var genAccs []authtypes.GenesisAccount
	var balances []banktypes.Balance
	supply := sdk.NewCoins()
	for _, a := range w.Accts {
		genAccs = append(genAccs, &haqqtypes.EthAccount{BaseAccount: authtypes.NewBaseAccount(a.Acc, nil, 0, 0), CodeHash: emptyCodeHash})
		c := sdk.NewCoins(sdk.NewCoin(Denom, bal))
		for _, d := range cfg.ExtraDenoms {
			c = c.Add(sdk.NewCoin(d, bal))
		}
		balances = append(balances, banktypes.Balance{Address: a.Acc.String(), Coins: c})
		supply = supply.Add(c...)
	}
	authGen := authtypes.NewGenesisState(authtypes.DefaultParams(), genAccs)
	gs[authtypes.ModuleName] = cdc.MustMarshalJSON(authGen)

	var vals []stakingtypes.Validator
	var dels []stakingtypes.Delegation
	bonded := sdkmath.ZeroInt()
	for i, v := range w.Vals {
		pk := &sdked.PubKey{Key: v.PubKey}
		pkAny, err := codectypes.NewAnyWithValue(pk)
		if err != nil {
			return nil, err
		}
		_ = cryptocodec.FromTmPubKeyInterface
		// validators get different stakes so that power differs
		st := stake.MulRaw(int64(i + 1))
		rate := mustDec(cfg.CommRate)
		vals = append(vals, stakingtypes.Validator{
			OperatorAddress: v.ValAddr.String(), ConsensusPubkey: pkAny, Status: stakingtypes.Bonded,
			Tokens: st, DelegatorShares: sdk.NewDecFromInt(st), Description: stakingtypes.Description{Moniker: fmt.Sprintf("v%d", i)},
			UnbondingTime: time.Unix(0, 0).UTC(),
			Commission:    stakingtypes.NewCommission(rate, sdk.OneDec(), sdk.OneDec()), MinSelfDelegation: sdkmath.OneInt(),
		})
		dels = append(dels, stakingtypes.NewDelegation(w.Accts[v.Operator].Acc, v.ValAddr, sdk.NewDecFromInt(st)))
		bonded = bonded.Add(st)
	}
	sp := stakingtypes.DefaultParams()
	sp.BondDenom = Denom
	sp.UnbondingTime = time.Duration(cfg.UnbondingSecs) * time.Second
	sp.MaxEntries = 4
	gs[stakingtypes.ModuleName] = cdc.MustMarshalJSON(stakingtypes.NewGenesisState(sp, vals, dels))
	balances = append(balances, banktypes.Balance{
		Address: authtypes.NewModuleAddress(stakingtypes.BondedPoolName).String(),
		Coins:   sdk.NewCoins(sdk.NewCoin(Denom, bonded)),
	})
	supply = supply.Add(sdk.NewCoin(Denom, bonded))
	gs[banktypes.ModuleName] = cdc.MustMarshalJSON(banktypes.NewGenesisState(banktypes.DefaultGenesisState().Params, balances, supply, nil, nil))

	// distribution default is fine; slashing
	sl := slashingtypes.DefaultParams()
	sl.SignedBlocksWindow = cfg.SlashWindow
	sl.MinSignedPerWindow = mustDec(cfg.MinSigned)
	sl.SlashFractionDowntime = mustDec(cfg.SlashDowntime)
	sl.SlashFractionDoubleSign = mustDec(cfg.SlashDoubleSign)
	sl.DowntimeJailDuration = time.Duration(cfg.DowntimeJailSecs) * time.Second
	var sinfos []slashingtypes.SigningInfo
	for _, v := range w.Vals {
		ca := sdk.ConsAddress(v.ConsAddr)
		sinfos = append(sinfos, slashingtypes.SigningInfo{Address: ca.String(),
			ValidatorSigningInfo: slashingtypes.NewValidatorSigningInfo(ca, 0, 0, time.Unix(0, 0).UTC(), false, 0)})
	}
	gs[slashingtypes.ModuleName] = cdc.MustMarshalJSON(&slashingtypes.GenesisState{Params: sl, SigningInfos: sinfos})

	gp := govv1.DefaultParams()
	gp.MinDeposit = sdk.NewCoins(sdk.NewCoin(Denom, mustInt(cfg.GovMinDeposit)))
	vp := time.Duration(cfg.GovVotingSecs) * time.Second
	gp.VotingPeriod = &vp
	md := 2 * vp
	gp.MaxDepositPeriod = &md
	gp.BurnVoteQuorum = cfg.BurnVoteQuorum
	gp.BurnVoteVeto = cfg.BurnVoteVeto
	gp.BurnProposalDepositPrevote = cfg.BurnPropDeposit
	gs[govtypes.ModuleName] = cdc.MustMarshalJSON(govv1.NewGenesisState(1, gp))

	cg := crisistypes.DefaultGenesisState()
	cg.ConstantFee = sdk.NewCoin(Denom, sdkmath.NewInt(1000))
	gs[crisistypes.ModuleName] = cdc.MustMarshalJSON(cg)

	fm := feemarkettypes.DefaultParams()
	fm.NoBaseFee = cfg.NoBaseFee
	fm.BaseFee = mustInt(cfg.BaseFee)
	fm.MinGasPrice = mustDec(cfg.MinGasPrice)
	fm.MinGasMultiplier = mustDec(cfg.MinGasMult)
	fm.ElasticityMultiplier = cfg.Elasticity
	fm.BaseFeeChangeDenominator = cfg.ChangeDenom
	fm.EnableHeight = cfg.FeeEnableHeight
	fmg := feemarkettypes.DefaultGenesisState()
	fmg.Params = fm
	if err := fmg.Validate(); err != nil {
		return nil, fmt.Errorf("feemarket genesis: %w", err)
	}
	gs[feemarkettypes.ModuleName] = cdc.MustMarshalJSON(fmg)

	if k := cfg.Flag("genesis_drop_precompile"); k > 0 {
		// start with one of the available EVM extensions inactive
		eg := evmtypes.DefaultGenesisState()
		var act []string
		for i, a := range evmtypes.AvailableEVMExtensions {
			if int64(i+1) != k {
				act = append(act, a)
			}
		}
		eg.Params.ActivePrecompiles = act
		gs[evmtypes.ModuleName] = cdc.MustMarshalJSON(eg)
	}

	cp := coinomicstypes.DefaultParams()
	cp.EnableCoinomics = cfg.Coinomics
	cp.RewardCoefficient = mustDec(cfg.RewardCoeff)
	cgs := coinomicstypes.NewGenesisState(cp, sdk.NewCoin(Denom, mustInt(cfg.MaxSupply)))
	gs[coinomicstypes.ModuleName] = cdc.MustMarshalJSON(&cgs)

	lv := liquidvestingtypes.DefaultGenesisState()
	lv.Params.MinimumLiquidationAmount = mustInt(cfg.LVMinimum)
	gs[liquidvestingtypes.ModuleName] = cdc.MustMarshalJSON(lv)

	_ = distrtypes.ModuleName
	return json.Marshal(gs)
}

// ---------------------------------------------------------------------
// block production (consensus stub)

// BlockFaults are the validator faults injected into one BeginBlock.
type BlockFaults struct {
	Absent   []int   `json:"absent,omitempty"`   // validator indices that did not sign the previous block
	Evidence []EvRec `json:"evidence,omitempty"` // duplicate-vote evidence
	Proposer int     `json:"proposer,omitempty"`
}

type EvRec struct {
	Val    int   `json:"val"`
	Height int64 `json:"height"`
	AgeSec int64 `json:"age_sec"`
}

func (w *World) sortedVals(m map[string]int64) []string {
	ks := make([]string, 0, len(m))
	for k := range m {
		ks = append(ks, k)
	}
	sort.Strings(ks)
	return ks
}

func (w *World) beginBlock(dt time.Duration, f BlockFaults) error {
	if dt <= 0 {
		dt = time.Millisecond
	}
	w.Height++
	w.PrevTime = w.Now
	w.Now = w.Now.Add(dt)
	absent := map[int]bool{}
	for _, a := range f.Absent {
		absent[a] = true
	}
	var votes []abci.VoteInfo
	for _, k := range w.sortedVals(w.curVals) {
		v := w.valByPub[k]
		if v == nil {
			continue
		}
		// The SDK assumes the unbonding period outlasts CometBFT's validator-set
		// update delay. Swarm-drawn unbonding times of seconds combined with clock
		// jumps of days violate that assumption, so validators that staking has
		// already removed are left out of the commit info.
		if len(w.Reps) > 0 && w.Height > 1 && w.Reps[0].App != nil {
			sv, ok := w.Reps[0].App.StakingKeeper.GetValidatorByConsAddr(w.CommittedCtx(), sdk.ConsAddress(v.ConsAddr))
			if !ok || sv.IsUnbonded() {
				// (an already unbonded validator that still sits in the delayed CometBFT
				// set would be "slashed" for downtime, which staking refuses with a panic)
				continue
			}
		}
		votes = append(votes, abci.VoteInfo{
			Validator:       abci.Validator{Address: v.ConsAddr, Power: w.curVals[k]},
			SignedLastBlock: !absent[v.Operator] && w.Height > 1,
		})
		if absent[v.Operator] {
			w.Stats.Fault("val_absent")
		}
	}
	var evs []abci.Misbehavior
	for _, e := range f.Evidence {
		if e.Val < 0 || e.Val >= len(w.Vals) {
			continue
		}
		v := w.Vals[e.Val]
		if w.curVals[hex.EncodeToString(v.PubKey)] <= 0 {
			continue // CometBFT only produces evidence against validators with voting power
		}
		evs = append(evs, abci.Misbehavior{
			Type:             abci.MisbehaviorType_DUPLICATE_VOTE,
			Validator:        abci.Validator{Address: v.ConsAddr, Power: w.curVals[hex.EncodeToString(v.PubKey)]},
			Height:           e.Height,
			Time:             w.Now.Add(-time.Duration(e.AgeSec) * time.Second),
			TotalVotingPower: w.totalPower(),
		})
		w.Stats.Fault("double_sign_evidence")
	}
	// proposer must be a validator known to staking
	prop := w.Vals[0]
	if f.Proposer >= 0 && f.Proposer < len(w.Vals) {
		prop = w.Vals[f.Proposer]
	}
	w.Header = tmproto.Header{
		ChainID: w.Cfg.ChainID, Height: w.Height, Time: w.Now,
		ProposerAddress: prop.ConsAddr,
	}
	if len(w.Reps) > 0 {
		w.Header.AppHash = w.Reps[0].App.LastCommitID().Hash
	}
	w.InBlock = true
	w.BlockReq = abci.RequestBeginBlock{
		Header:              w.Header,
		LastCommitInfo:      abci.CommitInfo{Votes: votes},
		ByzantineValidators: evs,
	}
	w.BlockTxs = nil
	w.BlockRes = nil
	for _, r := range w.Reps {
		if !r.live() {
			continue // stalled replica, catches up later
		}
		if r.FirstBegin == 0 {
			r.FirstBegin = w.Height
		}
		if err := w.safely(r, "begin", func() { r.App.BeginBlock(w.BlockReq) }); err != nil {
			return err
		}
	}
	w.Trace.Add("begin", w.Height, w.Now.UnixNano())
	return nil
}

func (w *World) totalPower() int64 {
	var t int64
	for _, p := range w.curVals {
		t += p
	}
	return t
}

// PanicError is returned when an ABCI call outside DeliverTx panics (a chain halt).
type PanicError struct {
	Phase string
	Val   string
}

func (p *PanicError) Error() string { return "panic in " + p.Phase + ": " + p.Val }

func (w *World) safely(r *Replica, phase string, f func()) (err error) {
	r.DB.Phase = phase
	defer func() {
		if x := recover(); x != nil {
			err = &PanicError{Phase: phase, Val: fmt.Sprint(x) + "\n" + string(debug.Stack())}
		}
	}()
	f()
	return nil
}

// DeliverTx delivers tx bytes to every live replica and compares the results.
func (w *World) DeliverTx(bz []byte) TxResult {
	w.BlockTxs = append(w.BlockTxs, bz)
	var first TxResult
	for i, r := range w.Reps {
		if !r.live() {
			continue
		}
		r.DB.Phase = "deliver"
		res := r.App.DeliverTx(abci.RequestDeliverTx{Tx: bz})
		tr := TxResult{Code: res.Code, Codespace: res.Codespace, Data: res.Data, GasWanted: res.GasWanted, GasUsed: res.GasUsed, Log: res.Log, Events: res.Events}
		if i == 0 {
			first = tr
		} else if w.Diverge == nil {
			if d := diffTx(first, tr); d != "" {
				if d == "gas_used" && first.Code != 0 && first.GasWanted == 0 && tr.GasWanted == 0 && (r.FirstBegin == w.Height || w.Reps[0].FirstBegin == w.Height) {
					d += ":pre-ante-failure:first-block-after-process-start"
				}
				w.Diverge = &Violation{Oracle: "replica-tx-result", Signature: "tx-result-diverged:" + d,
					Detail: fmt.Sprintf("height %d tx %d: replica 0 vs %d: %s | r0 code=%d gas=%d log=%q | r%d code=%d gas=%d log=%q",
						w.Height, len(w.BlockTxs)-1, r.ID, d, first.Code, first.GasUsed, trunc(first.Log, 200), r.ID, tr.Code, tr.GasUsed, trunc(tr.Log, 200))}
			}
		}
	}
	if len(w.Reps) > 1 {
		w.Stats.Oracle++
	}
	w.LastResult = first
	w.BlockRes = append(w.BlockRes, first)
	w.Stats.Txs++
	if first.Code == 0 {
		w.Stats.TxsOK++
	}
	w.Trace.Add("tx", int64(first.Code), first.GasUsed, sha(bz), sha(first.Data))
	return first
}

func trunc(s string, n int) string {
	if len(s) > n {
		return s[:n]
	}
	return s
}

func sha(b []byte) string { h := sha256.Sum256(b); return hex.EncodeToString(h[:8]) }

func diffTx(a, b TxResult) string {
	switch {
	case a.Code != b.Code:
		return "code"
	case a.Codespace != b.Codespace:
		return "codespace"
	case !bytes.Equal(a.Data, b.Data):
		return "data"
	case a.GasWanted != b.GasWanted:
		return "gas_wanted"
	case a.GasUsed != b.GasUsed:
		return "gas_used"
	}
	return ""
}

// EndBlock runs EndBlock+Commit on every live replica, compares validator
// updates / consensus params / app hashes, applies the validator updates to
// the stub's validator-set model and returns the app hash of replica 0.
func (w *World) EndBlock() ([]byte, error) {
	var firstHash []byte
	var firstEB abci.ResponseEndBlock
	for i, r := range w.Reps {
		if !r.live() {
			continue
		}
		var eb abci.ResponseEndBlock
		if err := w.safely(r, "end", func() { eb = r.App.EndBlock(abci.RequestEndBlock{Height: w.Height}) }); err != nil {
			return nil, err
		}
		var cr abci.ResponseCommit
		if err := w.safely(r, "commit", func() { cr = r.App.Commit() }); err != nil {
			return nil, err
		}
		r.Height = w.Height
		if i == 0 {
			firstHash, firstEB = cr.Data, eb
			continue
		}
		if w.Diverge == nil {
			if a, b := valUpdStr(firstEB.ValidatorUpdates), valUpdStr(eb.ValidatorUpdates); a != b {
				w.Diverge = &Violation{Oracle: "replica-validator-updates", Signature: "validator-updates-diverged",
					Detail: fmt.Sprintf("height %d: r0 %s vs r%d %s", w.Height, a, r.ID, b)}
			} else if a, b := fmt.Sprint(firstEB.ConsensusParamUpdates), fmt.Sprint(eb.ConsensusParamUpdates); a != b {
				w.Diverge = &Violation{Oracle: "replica-consensus-params", Signature: "consensus-params-diverged",
					Detail: fmt.Sprintf("height %d: r0 %s vs r%d %s", w.Height, a, r.ID, b)}
			} else if !bytes.Equal(firstHash, cr.Data) {
				w.Diverge = &Violation{Oracle: "replica-app-hash", Signature: "app-hash-diverged:" + w.diffStores(w.Reps[0], r),
					Detail: fmt.Sprintf("height %d: r0 %X vs r%d %X", w.Height, firstHash, r.ID, cr.Data)}
			}
		}
	}
	w.LastEndEvents = firstEB.Events
	// validator-set model: updates returned at H take effect at H+2
	w.curVals = w.nextVals
	w.nextVals = w.pendVals
	w.pendVals = copyVals(w.pendVals)
	for _, vu := range firstEB.ValidatorUpdates {
		k := hex.EncodeToString(vu.PubKey.GetEd25519())
		if vu.Power == 0 {
			delete(w.pendVals, k)
		} else {
			w.pendVals[k] = vu.Power
		}
	}
	w.Stats.Blocks++
	w.Trace.Add("commit", w.Height, hex.EncodeToString(firstHash), valUpdStr(firstEB.ValidatorUpdates))
	if w.KeepLog {
		w.BlockLog = append(w.BlockLog, LoggedBlock{Req: w.BlockReq, Txs: w.BlockTxs, Results: w.BlockRes, ValUpd: valUpdStr(firstEB.ValidatorUpdates), AppHash: firstHash})
	}
	w.InBlock = false
	return firstHash, nil
}

func valUpdStr(vs []abci.ValidatorUpdate) string {
	var s []string
	for _, v := range vs {
		s = append(s, fmt.Sprintf("%x:%d", v.PubKey.GetEd25519()[:4], v.Power))
	}
	sort.Strings(s)
	return fmt.Sprint(s)
}

// StoreHashes returns the per-store commit hashes of the last committed version.
func StoreHashes(a *app.Haqq) map[string][]byte {
	out := map[string][]byte{}
	rs, ok := a.CommitMultiStore().(*rootmulti.Store)
	if !ok {
		return out
	}
	ci, err := rs.GetCommitInfo(a.LastBlockHeight())
	if err != nil {
		return out
	}
	for _, si := range ci.StoreInfos {
		out[si.Name] = si.CommitId.Hash
	}
	return out
}

// DiffStoreNames names the stores whose commit hashes differ between two apps.
func DiffStoreNames(a, b *app.Haqq) []string {
	var names []string
	ka, kb := StoreHashes(a), StoreHashes(b)
	for n, h := range ka {
		if !bytes.Equal(h, kb[n]) {
			names = append(names, n)
		}
	}
	for n := range kb {
		if _, ok := ka[n]; !ok {
			names = append(names, n)
		}
	}
	sort.Strings(names)
	return names
}

func (w *World) diffStores(a, b *Replica) string {
	names := DiffStoreNames(a.App, b.App)
	if len(names) > 3 {
		names = names[:3]
	}
	return fmt.Sprint(names)
}

// NextBlock ends the open block and opens the next one dt later.
func (w *World) NextBlock(dt time.Duration, f BlockFaults) error {
	if _, err := w.EndBlock(); err != nil {
		return err
	}
	w.Stats.SimTime += dt
	if w.OnBoundary != nil {
		if v := w.OnBoundary(w); v != nil && w.Diverge == nil {
			w.Diverge = v
		}
	}
	return w.beginBlock(dt, f)
}

// ReplayLogged executes one logged block on a lagging replica and compares
// every result with what the rest of the network agreed on.
func (w *World) ReplayLogged(r *Replica, lb *LoggedBlock) (*Violation, error) {
	h := lb.Req.Header.Height
	first := r.FirstBegin == 0
	if first {
		r.FirstBegin = h
	}
	if err := w.safely(r, "begin", func() { r.App.BeginBlock(lb.Req) }); err != nil {
		return nil, err
	}
	var v *Violation
	for i, bz := range lb.Txs {
		r.DB.Phase = "deliver"
		res := r.App.DeliverTx(abci.RequestDeliverTx{Tx: bz})
		tr := TxResult{Code: res.Code, Codespace: res.Codespace, Data: res.Data, GasWanted: res.GasWanted, GasUsed: res.GasUsed, Log: res.Log}
		if d := diffTx(lb.Results[i], tr); d != "" && v == nil {
			if d == "gas_used" && tr.Code != 0 && tr.GasWanted == 0 && lb.Results[i].GasWanted == 0 && r.FirstBegin == h {
				d += ":pre-ante-failure:first-block-after-process-start"
			}
			v = Violatef("replica-tx-result", "tx-result-diverged:"+d, "catch-up of replica %d, height %d tx %d: %s differs (network code=%d gas=%d log=%q | replica code=%d gas=%d log=%q)",
				r.ID, h, i, d, lb.Results[i].Code, lb.Results[i].GasUsed, trunc(lb.Results[i].Log, 160), tr.Code, tr.GasUsed, trunc(tr.Log, 160))
		}
	}
	var eb abci.ResponseEndBlock
	if err := w.safely(r, "end", func() { eb = r.App.EndBlock(abci.RequestEndBlock{Height: h}) }); err != nil {
		return nil, err
	}
	var cr abci.ResponseCommit
	if err := w.safely(r, "commit", func() { cr = r.App.Commit() }); err != nil {
		return nil, err
	}
	r.Height = h
	if v == nil && valUpdStr(eb.ValidatorUpdates) != lb.ValUpd {
		v = Violatef("replica-validator-updates", "validator-updates-diverged", "catch-up of replica %d, height %d: %s vs network %s", r.ID, h, valUpdStr(eb.ValidatorUpdates), lb.ValUpd)
	}
	if v == nil && !bytes.Equal(cr.Data, lb.AppHash) {
		v = Violatef("replica-app-hash", "app-hash-diverged:"+w.diffStoresAt(r, h), "catch-up of replica %d, height %d: app hash %X vs network %X", r.ID, h, cr.Data, lb.AppHash)
	}
	return v, nil
}

func (w *World) diffStoresAt(r *Replica, h int64) string {
	if w.Reps[0].Height == h && w.Reps[0] != r {
		return w.diffStores(w.Reps[0], r)
	}
	return "[unknown]"
}

// CatchUp brings a stalled replica back: replays every missing committed
// block from the block store, then the open block so far.
func (w *World) CatchUp(r *Replica) (*Violation, error) {
	var first *Violation
	for r.Height < w.Height-1 {
		lb := &w.BlockLog[r.Height] // height r.Height+1
		v, err := w.ReplayLogged(r, lb)
		if err != nil {
			return nil, err
		}
		if v != nil && first == nil {
			first = v
		}
	}
	r.Stalled = false
	if r.FirstBegin == 0 {
		r.FirstBegin = w.Height
	}
	if err := w.safely(r, "begin", func() { r.App.BeginBlock(w.BlockReq) }); err != nil {
		return nil, err
	}
	for _, bz := range w.BlockTxs {
		r.DB.Phase = "deliver"
		r.App.DeliverTx(abci.RequestDeliverTx{Tx: bz})
	}
	return first, nil
}

// Join constructs a brand-new replica from genesis (a late joiner); it is
// stalled at height 0 until CatchUp.
func (w *World) Join(o ReplicaOpts) *Replica {
	r := &Replica{ID: len(w.Reps), DB: NewSimDB(), Opts: o, Stalled: true}
	r.DB.Phase = "init"
	r.App = w.newApp(r)
	r.App.InitChain(w.initChainReq(w.genesis))
	w.Reps = append(w.Reps, r)
	w.Stats.Fault("late_joiner")
	return r
}

// Ctx returns a throw-away cached context over the open block's state on
// replica 0: reads see everything delivered so far, writes are discarded.
func (w *World) Ctx() sdk.Context {
	return w.CtxOf(w.Reps[0])
}

func (w *World) CtxOf(r *Replica) sdk.Context {
	ctx := r.App.BaseApp.NewContext(false, w.Header)
	c, _ := ctx.CacheContext()
	return c.WithGasMeter(sdk.NewInfiniteGasMeter()).WithBlockGasMeter(sdk.NewInfiniteGasMeter())
}

func (w *World) App() *app.Haqq { return w.Reps[0].App }

// NewAppFor re-opens replica r's application on its disk.
func (w *World) NewAppFor(r *Replica) *app.Haqq { return w.newApp(r) }

// CommittedCtx is a throw-away cached context over the last committed state of
// replica 0 (not the open block, not the CheckTx state).
func (w *World) CommittedCtx() sdk.Context {
	h := w.Header
	ctx := w.Reps[0].App.BaseApp.NewUncachedContext(false, h)
	c, _ := ctx.CacheContext()
	return c.WithGasMeter(sdk.NewInfiniteGasMeter()).WithBlockGasMeter(sdk.NewInfiniteGasMeter())
}

// Balance of the native coin.
func (w *World) Balance(addr sdk.AccAddress) *big.Int {
	return w.App().BankKeeper.GetBalance(w.Ctx(), addr, Denom).Amount.BigInt()
}

func (w *World) Supply() *big.Int {
	return w.App().BankKeeper.GetSupply(w.Ctx(), Denom).Amount.BigInt()
}

func ModuleAddr(name string) sdk.AccAddress { return authtypes.NewModuleAddress(name) }
