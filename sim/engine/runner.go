package engine

import (
	"encoding/json"
	"fmt"
	"os"
	"runtime/debug"
	"strings"
	"time"
)

// trimStack keeps the frames of the harness and of the repository under test.
func trimStack(b []byte) string {
	var out []string
	lines := strings.Split(string(b), "\n")
	for i := 0; i+1 < len(lines); i++ {
		if strings.Contains(lines[i+1], "/verif/sim/") || strings.Contains(lines[i+1], "/repo/") {
			out = append(out, strings.TrimSpace(lines[i])+" "+strings.TrimSpace(lines[i+1]))
		}
		if len(out) >= 10 {
			break
		}
	}
	return strings.Join(out, "\n")
}

// AnalysedHalts: panics inside BeginBlock/EndBlock (chain halts) that were traced
// to code owned by the Cosmos SDK, not by Haqq, and that no listed property
// speaks about. A run that hits one ends there; any other halt stays a harness
// error (exit 2) until it has been analysed.
var AnalysedHalts = []string{"destination validator not found"}

func firstLine(s string) string {
	if i := strings.IndexByte(s, '\n'); i >= 0 {
		return s[:i]
	}
	return s
}

// Step is one recorded action of a schedule. Schedules are explicit data: a
// replay executes exactly these steps and never consults the PRNG.
type Step struct {
	K   string          `json:"k"`             // kind: blk, tx, crash, traffic, relay, fork, ...
	Op  string          `json:"op,omitempty"`  // operation name
	A   int             `json:"a,omitempty"`   // actor (account index)
	B   int             `json:"b,omitempty"`   // second party
	N   []int64         `json:"n,omitempty"`   // small integer arguments
	S   []string        `json:"s,omitempty"`   // big integers / strings
	Net string          `json:"net,omitempty"` // transport fault applied to this tx
	Dt  int64           `json:"dt,omitempty"`  // blk: milliseconds since previous block
	F   *BlockFaults    `json:"f,omitempty"`   // blk: validator faults
	P   json.RawMessage `json:"p,omitempty"`   // structured payload (e.g. an EVM call tree)
}

func (s Step) n(i int) int64 {
	if i < len(s.N) {
		return s.N[i]
	}
	return 0
}
func (s Step) s(i int) string {
	if i < len(s.S) {
		return s.S[i]
	}
	return ""
}

// NArg / SArg are exported accessors that tolerate shrunken steps.
func (s Step) NArg(i int) int64  { return s.n(i) }
func (s Step) SArg(i int) string { return s.s(i) }

// Profile is what a property check plugs into the engine.
type Profile interface {
	ID() string
	// Configure draws the swarm configuration of one run.
	Configure(rng *RNG, tier string) Config
	// Setup initialises the profile's model; it may execute deterministic setup
	// transactions (a pure function of the configuration).
	Setup(w *World) error
	// Gen produces the next step from the current world/model state.
	Gen(w *World, rng *RNG) Step
	// Exec executes one step including the per-step oracles.
	Exec(w *World, st *Step) *Violation
	// Final runs the fault-free tail and end-of-run oracles.
	Final(w *World) *Violation
	// Length is the number of generated steps of a run.
	Length(cfg Config, tier string) int
}

// ReplayFile is the on-disk schedule.
type ReplayFile struct {
	Property  string     `json:"property"`
	Seed      uint64     `json:"seed"`
	Run       uint64     `json:"run"`
	Tier      string     `json:"tier"`
	Config    Config     `json:"config"`
	Steps     []Step     `json:"steps"`
	Violation *Violation `json:"violation,omitempty"`
	Note      string     `json:"note,omitempty"`
}

type RunResult struct {
	Property   string         `json:"property"`
	Seed       uint64         `json:"seed"`
	Run        uint64         `json:"run"`
	Config     Config         `json:"config"`
	Steps      []Step         `json:"steps,omitempty"`
	Violation  *Violation     `json:"violation,omitempty"`
	HarnessErr string         `json:"harness_err,omitempty"`
	TraceHash  string         `json:"trace_hash"`
	RunSig     string         `json:"run_sig"`
	Blocks     int            `json:"blocks"`
	Txs        int            `json:"txs"`
	TxsOK      int            `json:"txs_ok"`
	SimTimeS   float64        `json:"sim_time_s"`
	Faults     map[string]int `json:"faults"`
	Probes     map[string]int `json:"probes"`
	Ops        map[string]int `json:"ops"`
	OpsOK      map[string]int `json:"ops_ok"`
	Oracle     int            `json:"oracle_evals"`
	Forks      int            `json:"forks"`
	States     []string       `json:"states"`
	WallS      float64        `json:"wall_s"`
	Replay     string         `json:"replay,omitempty"`
	ShrunkFrom int            `json:"shrunk_from,omitempty"`
}

func (r *RunResult) fill(w *World) {
	if w == nil {
		return
	}
	r.TraceHash = w.Trace.Sum()
	r.RunSig = w.Stats.RunSignature()
	r.Blocks, r.Txs, r.TxsOK = w.Stats.Blocks, w.Stats.Txs, w.Stats.TxsOK
	r.SimTimeS = w.Stats.SimTime.Seconds()
	r.Faults, r.Probes, r.Ops, r.OpsOK = w.Stats.Faults, w.Stats.Probes, w.Stats.Ops, w.Stats.OpsOK
	r.Oracle, r.Forks = w.Stats.Oracle, w.Stats.Forks
	r.States = sortedKeys(w.Stats.States)
}

// execStep runs one step through the profile and converts panics of the
// harness itself into harness errors (never into violations).
func execStep(p Profile, w *World, st *Step, idx int) (v *Violation, herr error) {
	defer func() {
		if x := recover(); x != nil {
			if pe, ok := x.(*PanicError); ok {
				for _, h := range AnalysedHalts {
					if strings.Contains(firstLine(pe.Val), h) {
						// a chain halt owned by the SDK, analysed in DESIGN §8: the history ends here
						w.Halted = true
						w.Stats.Probe("chain_halted_in_sdk:" + h)
						return
					}
				}
				herr = pe
				return
			}
			herr = fmt.Errorf("harness panic at step %d (%s/%s): %v\n%s", idx, st.K, st.Op, x, trimStack(debug.Stack()))
		}
	}()
	v = p.Exec(w, st)
	if v == nil && w.Diverge != nil {
		v = w.Diverge
	}
	if v != nil {
		v.Step = idx
		v.TraceHash = w.Trace.Sum()
	}
	return v, nil
}

// RunGenerate executes one generated run.
func RunGenerate(p Profile, seed, run uint64, tier string) *RunResult {
	t0 := time.Now()
	res := &RunResult{Property: p.ID(), Seed: seed, Run: run}
	cfg := p.Configure(NewRNG(seed, run, "config"), tier)
	res.Config = cfg
	w, err := NewWorld(cfg)
	if err != nil {
		res.HarnessErr = "new world: " + err.Error()
		return res
	}
	defer func() { res.fill(w); res.WallS = time.Since(t0).Seconds() }()
	if err := safeSetup(p, w); err != nil {
		res.HarnessErr = "setup: " + err.Error()
		return res
	}
	rng := NewRNG(seed, run, "workload")
	n := p.Length(cfg, tier)
	for i := 0; i < n; i++ {
		st := p.Gen(w, rng)
		res.Steps = append(res.Steps, st)
		w.Trace.Add("step", st.K, st.Op, st.A, st.B, st.N, st.S, st.Net, st.Dt)
		v, herr := execStep(p, w, &res.Steps[len(res.Steps)-1], i)
		if herr != nil {
			res.HarnessErr = herr.Error()
			return res
		}
		if v != nil {
			res.Violation = v
			return res
		}
		if w.Halted {
			return res
		}
	}
	v, herr := safeFinal(p, w)
	if herr != nil {
		res.HarnessErr = herr.Error()
	} else if v != nil {
		v.Step = len(res.Steps)
		v.TraceHash = w.Trace.Sum()
		res.Violation = v
	}
	return res
}

func safeSetup(p Profile, w *World) (err error) {
	defer func() {
		if x := recover(); x != nil {
			err = fmt.Errorf("panic: %v", x)
		}
	}()
	return p.Setup(w)
}

func safeFinal(p Profile, w *World) (v *Violation, err error) {
	defer func() {
		if x := recover(); x != nil {
			err = fmt.Errorf("panic in final: %v", x)
		}
	}()
	v = p.Final(w)
	if v == nil && w.Diverge != nil {
		v = w.Diverge
	}
	return v, nil
}

// RunReplay executes a recorded schedule. No PRNG is consulted.
func RunReplay(p Profile, cfg Config, steps []Step) *RunResult {
	t0 := time.Now()
	res := &RunResult{Property: p.ID(), Config: cfg, Steps: steps}
	w, err := NewWorld(cfg)
	if err != nil {
		res.HarnessErr = "new world: " + err.Error()
		return res
	}
	defer func() { res.fill(w); res.WallS = time.Since(t0).Seconds() }()
	if err := safeSetup(p, w); err != nil {
		res.HarnessErr = "setup: " + err.Error()
		return res
	}
	for i := range steps {
		st := steps[i]
		w.Trace.Add("step", st.K, st.Op, st.A, st.B, st.N, st.S, st.Net, st.Dt)
		v, herr := execStep(p, w, &st, i)
		if herr != nil {
			res.HarnessErr = herr.Error()
			return res
		}
		if v != nil {
			res.Violation = v
			return res
		}
		if w.Halted {
			return res
		}
	}
	v, herr := safeFinal(p, w)
	if herr != nil {
		res.HarnessErr = herr.Error()
	} else if v != nil {
		v.Step = len(steps)
		v.TraceHash = w.Trace.Sum()
		res.Violation = v
	}
	return res
}

// Shrink minimises a failing schedule with ddmin over the steps, keeping only
// candidates that fail with the same oracle and signature. run executes a
// candidate (the orchestrator passes a function that replays it in a FRESH
// process, so that minimisation cannot be fooled by process-global state).
func Shrink(p Profile, cfg Config, steps []Step, want *Violation, budget time.Duration, run func([]Step) *Violation) ([]Step, *Violation, int) {
	deadline := time.Now().Add(budget)
	tries := 0
	cur := append([]Step(nil), steps...)
	// everything after the violating step is irrelevant
	if want.Step+1 < len(cur) {
		cur = cur[:want.Step+1]
	}
	curV := want
	if run == nil {
		run = func(c []Step) *Violation { return RunReplay(p, cfg, c).Violation }
	}
	fails := func(c []Step) *Violation {
		tries++
		v := run(c)
		if v != nil && v.Oracle == want.Oracle && v.Signature == want.Signature {
			return v
		}
		return nil
	}
	n := 2
	for len(cur) >= 2 && time.Now().Before(deadline) {
		chunk := (len(cur) + n - 1) / n
		reduced := false
		for start := 0; start < len(cur) && time.Now().Before(deadline); start += chunk {
			end := start + chunk
			if end > len(cur) {
				end = len(cur)
			}
			cand := append(append([]Step(nil), cur[:start]...), cur[end:]...)
			if len(cand) == 0 {
				continue
			}
			if v := fails(cand); v != nil {
				cur, curV = cand, v
				if v.Step+1 < len(cur) {
					cur = cur[:v.Step+1]
				}
				if n > 2 {
					n--
				}
				reduced = true
				break
			}
		}
		if !reduced {
			if chunk <= 1 {
				break
			}
			n *= 2
			if n > len(cur) {
				n = len(cur)
			}
		}
	}
	return cur, curV, tries
}

func WriteReplay(path string, rf *ReplayFile) error {
	b, err := json.MarshalIndent(rf, "", " ")
	if err != nil {
		return err
	}
	return os.WriteFile(path, b, 0o644)
}

func ReadReplay(path string) (*ReplayFile, error) {
	b, err := os.ReadFile(path)
	if err != nil {
		return nil, err
	}
	var rf ReplayFile
	if err := json.Unmarshal(b, &rf); err != nil {
		return nil, err
	}
	return &rf, nil
}
