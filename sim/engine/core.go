package engine

import (
	"crypto/sha256"
	"encoding/hex"
	"fmt"
	"hash"
	"sort"
	"time"
)

// Violation is what an oracle reports. Signature identifies the *class* of the
// violation (oracle + smallest discriminating facts); it is what minimisation
// preserves and what known_findings.jsonl matches on. It never contains the seed.
type Violation struct {
	Oracle    string `json:"oracle"`
	Signature string `json:"signature"`
	Detail    string `json:"detail"`
	Step      int    `json:"step"`
	TraceHash string `json:"trace_hash,omitempty"`
}

func (v *Violation) Error() string { return v.Oracle + ": " + v.Signature + ": " + v.Detail }

func Violatef(oracle, sig, format string, a ...any) *Violation {
	return &Violation{Oracle: oracle, Signature: sig, Detail: fmt.Sprintf(format, a...)}
}

// Stats counts what actually happened in a run (fired, not configured).
type Stats struct {
	Blocks  int
	Txs     int
	TxsOK   int
	SimTime time.Duration
	Faults  map[string]int
	Probes  map[string]int
	Ops     map[string]int
	OpsOK   map[string]int
	Oracle  int // oracle evaluations
	Forks   int
	States  map[string]struct{} // abstract states (property specific feature vectors)
	Sig     hash.Hash           // run signature: sequence of (op, fault, outcome class)
}

func NewStats() *Stats {
	return &Stats{Faults: map[string]int{}, Probes: map[string]int{}, Ops: map[string]int{}, OpsOK: map[string]int{},
		States: map[string]struct{}{}, Sig: sha256.New()}
}

func (s *Stats) Fault(k string) { s.Faults[k]++; s.Sig.Write([]byte("F:" + k + ";")) }
func (s *Stats) Probe(k string) { s.Probes[k]++ }
func (s *Stats) State(k string) { s.States[k] = struct{}{} }
func (s *Stats) Op(k string, ok bool) {
	s.Ops[k]++
	if ok {
		s.OpsOK[k]++
		s.Sig.Write([]byte("O:" + k + "+;"))
	} else {
		s.Sig.Write([]byte("O:" + k + "-;"))
	}
}
func (s *Stats) RunSignature() string { return hex.EncodeToString(s.Sig.Sum(nil)[:8]) }

// Trace is the incremental hash of the event log of a run: every ABCI call,
// its result and every generated step feed it. Two executions of the same
// seed (or of the same replay file) must end with the same trace hash.
type Trace struct {
	h hash.Hash
	N int
}

func NewTrace() *Trace { return &Trace{h: sha256.New()} }

func (t *Trace) Add(kind string, a ...any) {
	t.N++
	fmt.Fprintf(t.h, "%s|%v\n", kind, a)
}

func (t *Trace) Sum() string { return hex.EncodeToString(t.h.Sum(nil)[:12]) }

func sortedKeys[V any](m map[string]V) []string {
	ks := make([]string, 0, len(m))
	for k := range m {
		ks = append(ks, k)
	}
	sort.Strings(ks)
	return ks
}

// SortedKeys is exported for profiles.
func SortedKeys[V any](m map[string]V) []string { return sortedKeys(m) }
