package engine

import (
	"crypto/sha256"
	"encoding/binary"
	"math/big"
	"math/rand/v2"
)

// RNG is one named PRNG sub-stream. Every random choice of the simulator is
// drawn from a stream derived from (VERIF_SEED, run index, stream name), so an
// extra draw in one stream never shifts another one.
type RNG struct {
	*rand.Rand
	Draws uint64
}

func hash64(parts ...[]byte) (uint64, uint64) {
	h := sha256.New()
	for _, p := range parts {
		var l [8]byte
		binary.BigEndian.PutUint64(l[:], uint64(len(p)))
		h.Write(l[:])
		h.Write(p)
	}
	s := h.Sum(nil)
	return binary.BigEndian.Uint64(s[0:8]), binary.BigEndian.Uint64(s[8:16])
}

func u64b(v uint64) []byte {
	var b [8]byte
	binary.BigEndian.PutUint64(b[:], v)
	return b[:]
}

// NewRNG derives the stream `name` of run `run` of seed `seed`.
func NewRNG(seed uint64, run uint64, name string) *RNG {
	a, b := hash64(u64b(seed), u64b(run), []byte(name))
	return &RNG{Rand: rand.New(rand.NewPCG(a, b))}
}

func (r *RNG) Intn(n int) int {
	r.Draws++
	if n <= 0 {
		return 0
	}
	return r.Rand.IntN(n)
}

func (r *RNG) Int63n(n int64) int64 {
	r.Draws++
	if n <= 0 {
		return 0
	}
	return r.Rand.Int64N(n)
}

// Range returns a value in [lo, hi].
func (r *RNG) Range(lo, hi int64) int64 {
	if hi <= lo {
		return lo
	}
	return lo + r.Int63n(hi-lo+1)
}

func (r *RNG) Chance(p float64) bool {
	r.Draws++
	return r.Rand.Float64() < p
}

// Weighted picks an index with probability proportional to w[i].
func (r *RNG) Weighted(w []int) int {
	t := 0
	for _, x := range w {
		if x > 0 {
			t += x
		}
	}
	if t == 0 {
		return 0
	}
	k := r.Intn(t)
	for i, x := range w {
		if x <= 0 {
			continue
		}
		if k < x {
			return i
		}
		k -= x
	}
	return len(w) - 1
}

// BigBelow returns a uniformly distributed integer in [0, n).
func (r *RNG) BigBelow(n *big.Int) *big.Int {
	if n.Sign() <= 0 {
		return new(big.Int)
	}
	bits := n.BitLen() + 64
	v := new(big.Int)
	for i := 0; i < (bits+63)/64; i++ {
		r.Draws++
		v.Lsh(v, 64)
		v.Or(v, new(big.Int).SetUint64(r.Rand.Uint64()))
	}
	return v.Mod(v, n)
}

// Amount draws an amount biased to interesting magnitudes: tiny integers,
// 1e18 scale, and "around max" (max-1, max, max+1) when max is given.
func (r *RNG) Amount(max *big.Int) *big.Int {
	switch r.Intn(10) {
	case 0:
		return big.NewInt(int64(r.Intn(4))) // 0..3
	case 1:
		return big.NewInt(r.Range(1, 1000))
	case 2:
		if max != nil && max.Sign() > 0 {
			d := big.NewInt(r.Range(-1, 1))
			v := new(big.Int).Add(max, d)
			if v.Sign() < 0 {
				v.SetInt64(0)
			}
			return v
		}
		fallthrough
	case 3:
		e := new(big.Int).Exp(big.NewInt(10), big.NewInt(r.Range(15, 19)), nil)
		return e.Mul(e, big.NewInt(r.Range(1, 99)))
	default:
		if max != nil && max.Sign() > 0 {
			return r.BigBelow(new(big.Int).Add(max, big.NewInt(1)))
		}
		e := new(big.Int).Exp(big.NewInt(10), big.NewInt(r.Range(0, 19)), nil)
		return e.Mul(e, big.NewInt(r.Range(1, 999)))
	}
}
