package engine

import (
	dbm "github.com/cometbft/cometbft-db"
)

// SimDB is the simulated disk handed to NewHaqq. It is a MemDB that survives
// the application object (a "crash" drops every reference to the app and
// re-opens the same SimDB), can be cloned at a block boundary (fork), and
// counts writes per ABCI phase so the harness can assert that nothing becomes
// durable outside Commit.
type SimDB struct {
	*dbm.MemDB
	Phase  string // set by the replica before every ABCI call
	Writes map[string]int
}

func NewSimDB() *SimDB {
	return &SimDB{MemDB: dbm.NewMemDB(), Writes: map[string]int{}}
}

func (d *SimDB) note(n int) { d.Writes[d.Phase] += n }

func (d *SimDB) Set(k, v []byte) error          { d.note(1); return d.MemDB.Set(k, v) }
func (d *SimDB) SetSync(k, v []byte) error      { d.note(1); return d.MemDB.SetSync(k, v) }
func (d *SimDB) Delete(k []byte) error          { d.note(1); return d.MemDB.Delete(k) }
func (d *SimDB) DeleteSync(k []byte) error      { d.note(1); return d.MemDB.DeleteSync(k) }
func (d *SimDB) Close() error                   { return nil } // the disk outlives the process
func (d *SimDB) NewBatch() dbm.Batch            { return &simBatch{Batch: d.MemDB.NewBatch(), d: d} }
func (d *SimDB) NewBatchWithSize(int) dbm.Batch { return d.NewBatch() }

type simBatch struct {
	dbm.Batch
	d *SimDB
	n int
}

func (b *simBatch) Set(k, v []byte) error { b.n++; return b.Batch.Set(k, v) }
func (b *simBatch) Delete(k []byte) error { b.n++; return b.Batch.Delete(k) }
func (b *simBatch) Write() error          { b.d.note(b.n); b.n = 0; return b.Batch.Write() }
func (b *simBatch) WriteSync() error      { b.d.note(b.n); b.n = 0; return b.Batch.WriteSync() }

// Clone copies every durable key/value pair into a fresh SimDB.
func (d *SimDB) Clone() *SimDB {
	c := NewSimDB()
	it, err := d.MemDB.Iterator(nil, nil)
	if err != nil {
		panic(err)
	}
	defer it.Close()
	for ; it.Valid(); it.Next() {
		k := append([]byte{}, it.Key()...)
		v := append([]byte{}, it.Value()...)
		if err := c.MemDB.Set(k, v); err != nil {
			panic(err)
		}
	}
	return c
}
