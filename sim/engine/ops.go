package engine

import (
	"bytes"
	"fmt"
	"math/big"
	"time"

	sdkmath "cosmossdk.io/math"
	abci "github.com/cometbft/cometbft/abci/types"
	cryptoenc "github.com/cometbft/cometbft/crypto/encoding"
	servertypes "github.com/cosmos/cosmos-sdk/server/types"
	sdk "github.com/cosmos/cosmos-sdk/types"

	"github.com/haqq-network/haqq/app"
)

// BlkStep builds a block step.
func BlkStep(dtMs int64, f *BlockFaults) Step { return Step{K: "blk", Dt: dtMs, F: f} }

// ExecBlk ends the open block and opens the next one.
func (w *World) ExecBlk(st *Step) error {
	var f BlockFaults
	if st.F != nil {
		f = *st.F
	}
	dt := time.Duration(st.Dt) * time.Millisecond
	return w.NextBlock(dt, f)
}

// MustBlk panics with a PanicError-compatible harness error if block
// production fails (the runner turns that into exit 2, never a violation).
func (w *World) MustBlk(st *Step) {
	if err := w.ExecBlk(st); err != nil {
		if pe, ok := err.(*PanicError); ok {
			panic(pe)
		}
		panic(err)
	}
}

// Coin helpers
func C(denom string, amt *big.Int) sdk.Coin { return sdk.NewCoin(denom, sdkmath.NewIntFromBigInt(amt)) }
func Native(amt *big.Int) sdk.Coins         { return sdk.NewCoins(C(Denom, amt)) }

func BigS(s string) *big.Int {
	v, ok := new(big.Int).SetString(s, 10)
	if !ok {
		return new(big.Int)
	}
	return v
}

// DoCosmos builds, signs and delivers a Cosmos tx of account a in the open block.
// A build error (e.g. the account does not exist after shrinking) is returned as
// err; the tx is then not delivered.
func (w *World) DoCosmos(a *Account, o TxOpts, msgs ...sdk.Msg) (TxResult, error) {
	bz, err := w.BuildCosmosTx(a, o, msgs...)
	if err != nil {
		return TxResult{}, err
	}
	return w.DeliverTx(bz), nil
}

// DoEth builds, signs and delivers an Ethereum tx.
func (w *World) DoEth(a *Account, e EthArgs) (TxResult, error) {
	bz, _, err := w.BuildEthTx(a, e)
	if err != nil {
		return TxResult{}, err
	}
	return w.DeliverTx(bz), nil
}

// CheckTx runs CheckTx on one replica (non-consensus traffic).
func (w *World) CheckTx(r *Replica, bz []byte, recheck bool) abci.ResponseCheckTx {
	t := abci.CheckTxType_New
	if recheck {
		t = abci.CheckTxType_Recheck
	}
	r.DB.Phase = "checktx"
	return r.App.CheckTx(abci.RequestCheckTx{Tx: bz, Type: t})
}

// Restart crashes replica i (every in-memory reference to the application is
// dropped) and re-opens the application on the surviving simulated disk. When
// the crash happens inside a block, the block is re-delivered from its start,
// as CometBFT's handshake/replay does.
func (w *World) Restart(i int) (*Violation, error) {
	r := w.Reps[i]
	if r.Stalled {
		return nil, nil
	}
	k := len(w.BlockTxs)
	r.App = nil
	r.DB.Phase = "restart"
	r.App = w.newApp(r)
	r.Restarts++
	w.Stats.Fault("crash_restart")
	last := w.Height
	if w.InBlock {
		last = w.Height - 1
		if k > 0 {
			w.Stats.Fault("crash_mid_block")
		}
	} else {
		w.Stats.Fault("crash_at_boundary")
	}
	if last == 0 {
		return nil, fmt.Errorf("restart before first commit is not modelled")
	}
	info := r.App.Info(abci.RequestInfo{})
	if info.LastBlockHeight != last {
		return Violatef("restart-info", "restart-height-mismatch", "replica %d reports height %d after restart, expected %d", i, info.LastBlockHeight, last), nil
	}
	want := w.lastAppHash()
	if want != nil && !bytes.Equal(info.LastBlockAppHash, want) {
		return Violatef("restart-info", "restart-apphash-mismatch", "replica %d reports app hash %X after restart at height %d, expected %X", i, info.LastBlockAppHash, last, want), nil
	}
	if !w.InBlock {
		return nil, nil
	}
	r.FirstBegin = w.Height
	if err := w.safely(r, "begin", func() { r.App.BeginBlock(w.BlockReq) }); err != nil {
		return nil, err
	}
	for _, bz := range w.BlockTxs {
		r.DB.Phase = "deliver"
		r.App.DeliverTx(abci.RequestDeliverTx{Tx: bz})
	}
	return nil, nil
}

// lastAppHash is the app hash of the last committed block as the network knows it.
func (w *World) lastAppHash() []byte {
	if w.InBlock {
		return w.Header.AppHash
	}
	if n := len(w.BlockLog); n > 0 {
		return w.BlockLog[n-1].AppHash
	}
	return nil
}

// Fork clones replica i's disk at the last committed boundary and opens a new
// application on the clone. The fork is positioned at the boundary (no open block).
func (w *World) Fork(i int) *Replica {
	src := w.Reps[i]
	r := &Replica{ID: 100 + w.Stats.Forks, DB: src.DB.Clone(), Opts: src.Opts}
	r.DB.Phase = "fork"
	r.App = w.newApp(r)
	w.Stats.Forks++
	return r
}

// WritesOutsideCommit returns the number of DB writes a replica performed in
// phases other than commit/init/restart/fork.
func (r *Replica) WritesOutsideCommit() (int, string) {
	n := 0
	where := ""
	for _, k := range sortedKeys(r.DB.Writes) {
		switch k {
		case "commit", "init", "restart", "fork":
		default:
			if r.DB.Writes[k] > 0 {
				n += r.DB.Writes[k]
				where += k + " "
			}
		}
	}
	return n, where
}

// ImportReplica initialises a FRESH application (new disk) from an exported
// genesis and commits it, as a chain restarted from the export would.
func (w *World) ImportReplica(ex servertypes.ExportedApp, commit bool) (r *Replica, err error) {
	r = &Replica{ID: 200 + w.Stats.Forks, DB: NewSimDB()}
	w.Stats.Forks++
	r.DB.Phase = "init"
	r.App = w.newApp(r)
	var vals []abci.ValidatorUpdate
	for _, v := range ex.Validators {
		pk, e := cryptoenc.PubKeyToProto(v.PubKey)
		if e != nil {
			return nil, e
		}
		vals = append(vals, abci.ValidatorUpdate{PubKey: pk, Power: v.Power})
	}
	req := abci.RequestInitChain{
		ChainId: w.Cfg.ChainID, Time: w.lastBlockTime(), Validators: vals, ConsensusParams: ex.ConsensusParams,
		AppStateBytes: ex.AppState, InitialHeight: ex.Height,
	}
	if e := w.safely(r, "init", func() { r.App.InitChain(req) }); e != nil {
		return nil, e
	}
	if !commit {
		return r, nil // positioned like a chain restarted from the export: next call is BeginBlock(InitialHeight)
	}
	if e := w.safely(r, "commit", func() { r.App.Commit() }); e != nil {
		return nil, e
	}
	return r, nil
}

func (w *World) lastBlockTime() time.Time { return w.PrevTime }

// BuildCosmosTxOn builds a tx against the state of another application (a fork).
func (w *World) BuildCosmosTxOn(r *Replica, a *Account, o TxOpts, msgs ...sdk.Msg) ([]byte, error) {
	old := w.Reps[0]
	w.Reps[0] = r
	defer func() { w.Reps[0] = old }()
	return w.BuildCosmosTx(a, o, msgs...)
}

// DiffStoreKV lists (at most n) keys whose values differ between the committed
// stores of two applications.
func DiffStoreKV(a, b *app.Haqq, store string, n int) []string {
	ka, kb := a.GetKey(store), b.GetKey(store)
	if ka == nil || kb == nil {
		return nil
	}
	sa := a.CommitMultiStore().GetKVStore(ka)
	sb := b.CommitMultiStore().GetKVStore(kb)
	var out []string
	seen := map[string]bool{}
	ia := sa.Iterator(nil, nil)
	for ; ia.Valid() && len(out) < n; ia.Next() {
		k := ia.Key()
		seen[string(k)] = true
		vb := sb.Get(k)
		if !bytes.Equal(ia.Value(), vb) {
			out = append(out, fmt.Sprintf("%x: %x | %x", k, trimB(ia.Value()), trimB(vb)))
		}
	}
	ia.Close()
	ib := sb.Iterator(nil, nil)
	for ; ib.Valid() && len(out) < n; ib.Next() {
		if !seen[string(ib.Key())] {
			out = append(out, fmt.Sprintf("%x: <absent> | %x", ib.Key(), trimB(ib.Value())))
		}
	}
	ib.Close()
	return out
}

// KVDiff is one key on which two replicas' stores differ (nil = absent).
type KVDiff struct{ Key, A, B []byte }

// DiffStoreEntries lists every differing key of one store.
func DiffStoreEntries(a, b *app.Haqq, store string) []KVDiff {
	ka, kb := a.GetKey(store), b.GetKey(store)
	if ka == nil || kb == nil {
		return nil
	}
	sa := a.CommitMultiStore().GetKVStore(ka)
	sb := b.CommitMultiStore().GetKVStore(kb)
	var out []KVDiff
	seen := map[string]bool{}
	ia := sa.Iterator(nil, nil)
	for ; ia.Valid(); ia.Next() {
		k := append([]byte{}, ia.Key()...)
		seen[string(k)] = true
		vb := sb.Get(k)
		if !bytes.Equal(ia.Value(), vb) {
			out = append(out, KVDiff{k, append([]byte{}, ia.Value()...), vb})
		}
	}
	ia.Close()
	ib := sb.Iterator(nil, nil)
	for ; ib.Valid(); ib.Next() {
		if !seen[string(ib.Key())] {
			out = append(out, KVDiff{append([]byte{}, ib.Key()...), nil, append([]byte{}, ib.Value()...)})
		}
	}
	ib.Close()
	return out
}

func trimB(b []byte) []byte {
	if len(b) > 80 {
		return b[:80]
	}
	return b
}
