package engine

import (
	"fmt"
	"math/big"

	sdkmath "cosmossdk.io/math"
	"github.com/cosmos/cosmos-sdk/client"
	clienttx "github.com/cosmos/cosmos-sdk/client/tx"
	codectypes "github.com/cosmos/cosmos-sdk/codec/types"
	sdk "github.com/cosmos/cosmos-sdk/types"
	"github.com/cosmos/cosmos-sdk/types/tx/signing"
	"github.com/cosmos/cosmos-sdk/x/auth/migrations/legacytx"
	authsigning "github.com/cosmos/cosmos-sdk/x/auth/signing"
	authtx "github.com/cosmos/cosmos-sdk/x/auth/tx"
	"github.com/ethereum/go-ethereum/common"
	ethtypes "github.com/ethereum/go-ethereum/core/types"
	"github.com/ethereum/go-ethereum/crypto"
	"github.com/ethereum/go-ethereum/signer/core/apitypes"

	"github.com/haqq-network/haqq/ethereum/eip712"
	testtx "github.com/haqq-network/haqq/testutil/tx"
	haqqtypes "github.com/haqq-network/haqq/types"
	evmtypes "github.com/haqq-network/haqq/x/evm/types"
)

// TxOpts are the knobs of a Cosmos-route transaction. Zero values mean "what an
// honest client would do".
type TxOpts struct {
	Gas      uint64
	GasPrice *big.Int // nil: current base fee / min gas price
	Seq      *uint64  // nil: current sequence from state
	ChainID  string   // "": this chain
	Memo     string
	EIP712   bool // legacy Web3 extension route
	// EIP712Direct: plain Cosmos route, signature over the EIP-712 form of the sign doc
	EIP712Direct bool
	Timeout      uint64
	ExtOpts      []*codectypes.Any
}

func (w *World) TxConfig() client.TxConfig { return w.Enc.TxConfig }

// DefaultGas is the gas limit an honest client declares when the caller does
// not choose one: 3M, or the block gas limit if that is lower.
func (w *World) DefaultGas() uint64 {
	g := uint64(3_000_000)
	if mg := w.Cfg.BlockMaxGas; mg > 0 && int64(g) > mg {
		g = uint64(mg)
	}
	return g
}

// GasPriceNow returns a price that passes both the min-gas-price and the base
// fee check in the open block.
func (w *World) GasPriceNow() *big.Int {
	ctx := w.Ctx()
	p := new(big.Int)
	fp := w.App().FeeMarketKeeper.GetParams(ctx)
	if !fp.NoBaseFee {
		if bf := w.App().FeeMarketKeeper.GetBaseFee(ctx); bf != nil {
			p.Set(bf)
		}
	}
	mg := fp.MinGasPrice.Ceil().TruncateInt().BigInt()
	if mg.Cmp(p) > 0 {
		p = mg
	}
	return p
}

func (w *World) AccountNumSeq(addr sdk.AccAddress) (uint64, uint64, bool) {
	acc := w.App().AccountKeeper.GetAccount(w.Ctx(), addr)
	if acc == nil {
		return 0, 0, false
	}
	return acc.GetAccountNumber(), acc.GetSequence(), true
}

// BuildCosmosTx signs msgs with a's key (SIGN_MODE_DIRECT, or EIP-712 typed
// data when opts.EIP712) and returns the encoded transaction.
func (w *World) BuildCosmosTx(a *Account, o TxOpts, msgs ...sdk.Msg) ([]byte, error) {
	if o.Gas == 0 {
		o.Gas = w.DefaultGas()
	}
	price := o.GasPrice
	if price == nil {
		price = w.GasPriceNow()
	}
	accNum, seq, ok := w.AccountNumSeq(a.Acc)
	if !ok {
		return nil, fmt.Errorf("account %s does not exist", a.Acc)
	}
	if o.Seq != nil {
		seq = *o.Seq
	}
	chainID := o.ChainID
	if chainID == "" {
		chainID = w.Cfg.ChainID
	}
	fee := sdk.Coins{}
	if price.Sign() > 0 {
		fee = sdk.NewCoins(sdk.NewCoin(Denom, sdkmath.NewIntFromBigInt(new(big.Int).Mul(price, new(big.Int).SetUint64(o.Gas)))))
	}
	if o.EIP712 {
		if bz, err := w.buildEIP712(a, o, chainID, accNum, seq, fee, msgs); err == nil {
			return bz, nil
		}
		// message type not expressible as legacy typed data: sign normally
	}
	tb := w.TxConfig().NewTxBuilder()
	if err := tb.SetMsgs(msgs...); err != nil {
		return nil, err
	}
	tb.SetGasLimit(o.Gas)
	tb.SetFeeAmount(fee)
	tb.SetMemo(o.Memo)
	tb.SetTimeoutHeight(o.Timeout)
	if len(o.ExtOpts) > 0 {
		if eb, ok := tb.(authtx.ExtensionOptionsTxBuilder); ok {
			eb.SetExtensionOptions(o.ExtOpts...)
		}
	}
	sig := signing.SignatureV2{PubKey: a.Priv.PubKey(), Data: &signing.SingleSignatureData{SignMode: signing.SignMode_SIGN_MODE_DIRECT}, Sequence: seq}
	if err := tb.SetSignatures(sig); err != nil {
		return nil, err
	}
	sd := authsigning.SignerData{ChainID: chainID, AccountNumber: accNum, Sequence: seq}
	var err error
	if o.EIP712Direct {
		// SIGN_MODE_DIRECT envelope whose signature is made over the EIP-712
		// representation of the sign doc (accepted by ethsecp256k1.VerifySignature)
		signBytes, e1 := w.TxConfig().SignModeHandler().GetSignBytes(signing.SignMode_SIGN_MODE_DIRECT, sd, tb.GetTx())
		if e1 != nil {
			return nil, e1
		}
		typed, e2 := eip712.GetEIP712BytesForMsg(signBytes)
		if e2 == nil {
			sigBz, e3 := a.Priv.Sign(typed)
			if e3 != nil {
				return nil, e3
			}
			sig = signing.SignatureV2{PubKey: a.Priv.PubKey(), Data: &signing.SingleSignatureData{SignMode: signing.SignMode_SIGN_MODE_DIRECT, Signature: sigBz}, Sequence: seq}
			if err := tb.SetSignatures(sig); err != nil {
				return nil, err
			}
			return w.TxConfig().TxEncoder()(tb.GetTx())
		}
	}
	sig, err = clienttx.SignWithPrivKey(signing.SignMode_SIGN_MODE_DIRECT, sd, tb, a.Priv, w.TxConfig(), seq)
	if err != nil {
		return nil, err
	}
	if err := tb.SetSignatures(sig); err != nil {
		return nil, err
	}
	return w.TxConfig().TxEncoder()(tb.GetTx())
}

func (w *World) buildEIP712(a *Account, o TxOpts, chainID string, accNum, seq uint64, fee sdk.Coins, msgs []sdk.Msg) (out []byte, err error) {
	defer func() {
		// some message types have no amino sign bytes (MsgEthereumTx panics)
		if x := recover(); x != nil {
			out, err = nil, fmt.Errorf("eip712: %v", x)
		}
	}()
	pc, err := haqqtypes.ParseChainID(chainID)
	if err != nil {
		return nil, err
	}
	stdFee := legacytx.NewStdFee(o.Gas, fee) //nolint:staticcheck
	data := legacytx.StdSignBytes(chainID, accNum, seq, o.Timeout, stdFee, msgs, o.Memo, nil)
	if len(msgs) == 0 {
		return nil, fmt.Errorf("no msgs")
	}
	typed, err := eip712.LegacyWrapTxToTypedData(w.Enc.Codec, pc.Uint64(), msgs[0], data, &eip712.FeeDelegationOptions{FeePayer: a.Acc})
	if err != nil {
		return nil, err
	}
	tb := w.TxConfig().NewTxBuilder()
	eb, ok := tb.(authtx.ExtensionOptionsTxBuilder)
	if !ok {
		return nil, fmt.Errorf("no extension builder")
	}
	eb.SetFeeAmount(fee)
	eb.SetGasLimit(o.Gas)
	eb.SetMemo(o.Memo)
	eb.SetTimeoutHeight(o.Timeout)
	if err := eb.SetMsgs(msgs...); err != nil {
		return nil, err
	}
	sigHash, _, err := apitypes.TypedDataAndHash(typed)
	if err != nil {
		return nil, err
	}
	sigBz, err := a.Priv.Sign(sigHash)
	if err != nil {
		return nil, err
	}
	sigBz[crypto.RecoveryIDOffset] += 27
	opt, err := codectypes.NewAnyWithValue(&haqqtypes.ExtensionOptionsWeb3Tx{FeePayer: a.Acc.String(), TypedDataChainID: pc.Uint64(), FeePayerSig: sigBz})
	if err != nil {
		return nil, err
	}
	eb.SetExtensionOptions(opt)
	if err := eb.SetSignatures(signing.SignatureV2{PubKey: a.Priv.PubKey(), Data: &signing.SingleSignatureData{SignMode: signing.SignMode_SIGN_MODE_LEGACY_AMINO_JSON}, Sequence: seq}); err != nil {
		return nil, err
	}
	return w.TxConfig().TxEncoder()(eb.GetTx())
}

// EthArgs describes one Ethereum transaction.
type EthArgs struct {
	Type     int // 0 legacy, 1 access list, 2 dynamic fee
	Nonce    *uint64
	To       *common.Address
	Value    *big.Int
	Gas      uint64
	GasPrice *big.Int // legacy / access-list price, or fee cap for type 2; nil: auto
	Tip      *big.Int // type 2 only; nil: 0
	Data     []byte
	ChainID  *big.Int // nil: this chain
	Accesses *ethtypes.AccessList
	// Unprotected: sign a legacy tx without chain id (pre-EIP-155)
	Unprotected bool
}

func (w *World) EthChainID() *big.Int {
	pc, err := haqqtypes.ParseChainID(w.Cfg.ChainID)
	if err != nil {
		panic(err)
	}
	return pc
}

func (w *World) EthNonce(a common.Address) uint64 {
	return w.App().EvmKeeper.GetNonce(w.Ctx(), a)
}

// NewEthMsg builds and signs a MsgEthereumTx.
func (w *World) NewEthMsg(a *Account, e EthArgs) (*evmtypes.MsgEthereumTx, error) {
	chainID := e.ChainID
	if chainID == nil {
		chainID = w.EthChainID()
	}
	nonce := w.EthNonce(a.Eth)
	if e.Nonce != nil {
		nonce = *e.Nonce
	}
	price := e.GasPrice
	if price == nil {
		price = w.GasPriceNow()
	}
	if e.Gas == 0 {
		e.Gas = 500_000
	}
	val := e.Value
	if val == nil {
		val = new(big.Int)
	}
	args := &evmtypes.EvmTxArgs{ChainID: chainID, Nonce: nonce, To: e.To, Amount: val, GasLimit: e.Gas, Input: e.Data}
	switch e.Type {
	case 0:
		args.GasPrice = price
	case 1:
		args.GasPrice = price
		al := e.Accesses
		if al == nil {
			al = &ethtypes.AccessList{}
		}
		args.Accesses = al
	default:
		args.GasFeeCap = price
		tip := e.Tip
		if tip == nil {
			tip = price // default: willing to pay the whole cap (passes any min-gas-price floor the cap passes)
		}
		args.GasTipCap = tip
		al := e.Accesses
		if al == nil {
			al = &ethtypes.AccessList{}
		}
		args.Accesses = al
	}
	msg := evmtypes.NewTx(args)
	msg.From = a.Eth.Hex()
	var signer ethtypes.Signer = ethtypes.LatestSignerForChainID(chainID)
	if e.Unprotected {
		signer = ethtypes.HomesteadSigner{}
	}
	if err := msg.Sign(signer, testtx.NewSigner(a.Priv)); err != nil {
		return nil, err
	}
	return msg, nil
}

// WrapEthMsgs puts signed MsgEthereumTx messages into the Cosmos envelope the
// way the JSON-RPC server does (extension option, fee = sum of fees, no sigs).
func (w *World) WrapEthMsgs(msgs ...*evmtypes.MsgEthereumTx) ([]byte, error) {
	return w.WrapEthMsgsExt(nil, msgs...)
}

// WrapEthMsgsExt builds the Cosmos envelope of Ethereum messages with further
// extension options behind the Ethereum one (a malformed but decodable tx).
func (w *World) WrapEthMsgsExt(extra []*codectypes.Any, msgs ...*evmtypes.MsgEthereumTx) ([]byte, error) {
	tb := w.TxConfig().NewTxBuilder()
	fee := sdk.Coins{}
	var gas uint64
	sm := make([]sdk.Msg, 0, len(msgs))
	for _, m := range msgs {
		m.From = ""
		gas += m.GetGas()
		if f := m.GetFee(); f.Sign() > 0 {
			fee = fee.Add(sdk.NewCoin(Denom, sdkmath.NewIntFromBigInt(f)))
		}
		sm = append(sm, m)
	}
	if err := tb.SetMsgs(sm...); err != nil {
		return nil, err
	}
	opt, err := codectypes.NewAnyWithValue(&evmtypes.ExtensionOptionsEthereumTx{})
	if err != nil {
		return nil, err
	}
	tb.(authtx.ExtensionOptionsTxBuilder).SetExtensionOptions(append([]*codectypes.Any{opt}, extra...)...)
	tb.SetGasLimit(gas)
	tb.SetFeeAmount(fee)
	return w.TxConfig().TxEncoder()(tb.GetTx())
}

func (w *World) BuildEthTx(a *Account, e EthArgs) ([]byte, *evmtypes.MsgEthereumTx, error) {
	m, err := w.NewEthMsg(a, e)
	if err != nil {
		return nil, nil, err
	}
	bz, err := w.WrapEthMsgs(m)
	return bz, m, err
}

// EthResponse decodes the MsgEthereumTxResponse of a delivered eth tx.
func (w *World) EthResponse(res TxResult) (*evmtypes.MsgEthereumTxResponse, error) {
	if res.Code != 0 {
		return nil, fmt.Errorf("tx failed code=%d: %s", res.Code, res.Log)
	}
	var txData sdk.TxMsgData
	if err := w.Enc.Codec.Unmarshal(res.Data, &txData); err != nil {
		return nil, err
	}
	if len(txData.MsgResponses) == 0 {
		return nil, fmt.Errorf("no msg responses")
	}
	var r evmtypes.MsgEthereumTxResponse
	if err := w.Enc.Codec.Unmarshal(txData.MsgResponses[0].Value, &r); err != nil {
		return nil, err
	}
	return &r, nil
}
