package main

import (
	"fmt"

	banktypes "github.com/cosmos/cosmos-sdk/x/bank/types"

	e "haqqsim/engine"
)

func main() {
	cfg := e.DefaultConfig()
	cfg.Replicas = 2
	w, err := e.NewWorld(cfg)
	if err != nil {
		panic(err)
	}
	send := func() {
		a, b := w.Acct(2), w.Acct(3)
		bz, _ := w.BuildCosmosTx(a, e.TxOpts{}, banktypes.NewMsgSend(a.Acc, b.Acc, e.Native(e.BigS("5"))))
		res := w.DeliverTx(bz)
		fmt.Printf("  h=%d code=%d gasUsed=%d diverge=%v\n", w.Height, res.Code, res.GasUsed, w.Diverge)
		w.Diverge = nil
	}
	send()
	st := e.BlkStep(1000, nil)
	w.MustBlk(&st)
	send()
	// restart replica 1 mid block
	fmt.Println("restart r1")
	if v, err := w.Restart(1); v != nil || err != nil {
		panic(fmt.Sprint(v, err))
	}
	send()
	send()
	w.MustBlk(&st)
	send()
	send()
}
