package main

import (
	"fmt"
	"time"

	sdk "github.com/cosmos/cosmos-sdk/types"
	sdkvesting "github.com/cosmos/cosmos-sdk/x/auth/vesting/types"

	e "haqqsim/engine"

	liquidvestingtypes "github.com/haqq-network/haqq/x/liquidvesting/types"
	vestingtypes "github.com/haqq-network/haqq/x/vesting/types"
)

func main() {
	cfg := e.DefaultConfig()
	w, err := e.NewWorld(cfg)
	if err != nil {
		panic(err)
	}
	a, b := w.Acct(2), w.Acct(7)
	amt := e.Native(e.BigS("5000000000000000000000"))
	lock := sdkvesting.Periods{{Length: 1000, Amount: amt}}
	res, err := w.DoCosmos(a, e.TxOpts{}, vestingtypes.NewMsgCreateClawbackVestingAccount(a.Acc, b.Acc, time.Unix(w.Now.Unix(), 0), lock, nil, false))
	fmt.Println("create", res.Code, res.Log, err)
	st := e.BlkStep(1000, nil)
	w.MustBlk(&st)
	res, err = w.DoCosmos(a, e.TxOpts{}, sdk.Msg(nil))
	res, err = w.DoCosmos(b, e.TxOpts{}, liquidvestingtypes.NewMsgLiquidate(b.Acc, b.Acc, e.C(e.Denom, e.BigS("1000000000000000000000"))))
	fmt.Println("liquidate", res.Code, res.Log, res.GasUsed, err)
}
