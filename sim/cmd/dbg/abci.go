package main

import abci "github.com/cometbft/cometbft/abci/types"

func abciReq(bz []byte) abci.RequestDeliverTx { return abci.RequestDeliverTx{Tx: bz} }
