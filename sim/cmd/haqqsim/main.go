// haqqsim — deterministic simulation of haqq with fault injection.
//
//	haqqsim run     -prop C12 -tier quick -seed 1      orchestrator (spawns worker processes)
//	haqqsim worker  -prop C12 -tier quick -seed 1 -from 0 -to 64 -stride 16 -offset 3
//	haqqsim replay  -file replays/C12-....json          exit 1 when the recorded violation reproduces
//	haqqsim selftest -prop C12 -seed 1 -n 6             same seed twice -> same trace hash
package main

import (
	"bufio"
	"encoding/json"
	"flag"
	"fmt"
	"io"
	"os"
	"os/exec"
	"path/filepath"
	"runtime"
	"sort"
	"strconv"
	"strings"
	"sync"
	"time"

	e "haqqsim/engine"
	"haqqsim/props"
)

var verifDir = "/verif"

func main() {
	if d := os.Getenv("VERIF_DIR"); d != "" {
		verifDir = d
	}
	if len(os.Args) < 2 {
		fmt.Fprintln(os.Stderr, "usage: haqqsim run|worker|replay|selftest ...")
		os.Exit(2)
	}
	switch os.Args[1] {
	case "run":
		os.Exit(cmdRun(os.Args[2:]))
	case "worker":
		os.Exit(cmdWorker(os.Args[2:]))
	case "replay":
		os.Exit(cmdReplay(os.Args[2:]))
	case "selftest":
		os.Exit(cmdSelftest(os.Args[2:]))
	default:
		fmt.Fprintln(os.Stderr, "unknown command", os.Args[1])
		os.Exit(2)
	}
}

func profile(id string) e.Profile {
	f, ok := props.Registry[id]
	if !ok {
		fmt.Fprintln(os.Stderr, "no profile for property", id)
		os.Exit(2)
	}
	return f()
}

// ---------------------------------------------------------------- findings

type Finding struct {
	Property  string `json:"property"`
	Signature string `json:"signature"`
	Status    string `json:"status"` // open | fixed
	What      string `json:"what"`
	Replay    string `json:"minimal_replay,omitempty"`
	Commit    string `json:"commit,omitempty"`
}

func loadFindings(prop string) []Finding {
	f, err := os.Open(filepath.Join(verifDir, "known_findings.jsonl"))
	if err != nil {
		return nil
	}
	defer f.Close()
	var out []Finding
	sc := bufio.NewScanner(f)
	sc.Buffer(make([]byte, 1<<20), 1<<20)
	for sc.Scan() {
		line := strings.TrimSpace(sc.Text())
		if line == "" || strings.HasPrefix(line, "#") {
			continue
		}
		var k Finding
		if json.Unmarshal([]byte(line), &k) == nil && k.Property == prop {
			out = append(out, k)
		}
	}
	return out
}

func matchFinding(fs []Finding, v *e.Violation) *Finding {
	for i := range fs {
		if fs[i].Status != "open" {
			continue
		}
		s := fs[i].Signature
		if s == v.Signature || (strings.HasSuffix(s, "*") && strings.HasPrefix(v.Signature, strings.TrimSuffix(s, "*"))) {
			return &fs[i]
		}
	}
	return nil
}

// ---------------------------------------------------------------- worker

type workerOut struct {
	*e.RunResult
	Known      string   `json:"known,omitempty"` // signature of the known finding this violation matches
	ShrinkTry  int      `json:"shrink_tries,omitempty"`
	SampleHead []e.Step `json:"sample_head,omitempty"`
}

func cmdWorker(args []string) int {
	fs := flag.NewFlagSet("worker", flag.ExitOnError)
	prop := fs.String("prop", "", "")
	tier := fs.String("tier", "quick", "")
	seed := fs.Uint64("seed", 1, "")
	from := fs.Uint64("from", 0, "")
	to := fs.Uint64("to", 1, "")
	stride := fs.Uint64("stride", 1, "")
	offset := fs.Uint64("offset", 0, "")
	shrinkS := fs.Int("shrink", 60, "shrink budget seconds")
	deadline := fs.Int64("deadline", 0, "unix time after which no new run is started")
	fs.Parse(args)
	p := profile(*prop)
	known := loadFindings(*prop)
	// watchdog: a run that does not finish is harness trouble (exit 3), never a verdict
	wd := 240 + 2*(*shrinkS)
	time.AfterFunc(time.Duration(wd)*time.Second, func() {
		fmt.Fprintf(os.Stderr, "watchdog: worker %s seed %d runs %d..%d exceeded %ds\n", *prop, *seed, *from, *to, wd)
		os.Exit(3)
	})
	var sink *os.File = os.Stdout
	if os.Getenv("HAQQSIM_OUT_FD") == "3" {
		// results go to a dedicated descriptor: the application's tracers print to stdout/stderr
		sink = os.NewFile(3, "results")
	}
	out := bufio.NewWriter(sink)
	defer out.Flush()
	enc := json.NewEncoder(out)
	for run := *from + *offset; run < *to; run += *stride {
		if *deadline > 0 && time.Now().Unix() > *deadline {
			break
		}
		res := e.RunGenerate(p, *seed, run, *tier)
		wo := workerOut{RunResult: res}
		steps := res.Steps
		if run < 3 && len(steps) > 0 { // the first runs of a batch carry a sample
			h := steps
			if len(h) > 14 {
				h = h[:14]
			}
			wo.SampleHead = h
		}
		if res.Violation != nil {
			if k := matchFinding(known, res.Violation); k != nil {
				wo.Known = k.Signature
			} else {
				// minimise, write the replay file
				orig := len(steps)
				// every candidate is replayed in a fresh process
				self, _ := os.Executable()
				os.MkdirAll(filepath.Join(verifDir, ".work"), 0o755)
				tmp := filepath.Join(verifDir, ".work", fmt.Sprintf("cand-%s-%d-%d-%d.json", *prop, *seed, run, os.Getpid()))
				runCand := func(c []e.Step) *e.Violation {
					if err := e.WriteReplay(tmp, &e.ReplayFile{Property: *prop, Config: res.Config, Steps: c}); err != nil {
						return nil
					}
					cmd := exec.Command(self, "replay", "-file", tmp, "-quiet")
					cmd.Env = os.Environ()
					outb, _ := cmd.Output()
					for _, line := range strings.Split(string(outb), "\n") {
						if strings.HasPrefix(line, "REPLAY-RESULT ") {
							var v e.Violation
							if json.Unmarshal([]byte(strings.TrimPrefix(line, "REPLAY-RESULT ")), &v) == nil {
								return &v
							}
						}
					}
					return nil
				}
				ms, mv, tries := e.Shrink(p, res.Config, steps, res.Violation, time.Duration(*shrinkS)*time.Second, runCand)
				os.Remove(tmp)
				wo.ShrinkTry = tries
				res.ShrunkFrom = orig
				os.MkdirAll(filepath.Join(verifDir, "replays"), 0o755)
				path := filepath.Join(verifDir, "replays", fmt.Sprintf("%s-s%d-r%d.json", *prop, *seed, run))
				rf := &e.ReplayFile{Property: *prop, Seed: *seed, Run: run, Tier: *tier, Config: res.Config, Steps: ms, Violation: mv,
					Note: fmt.Sprintf("minimised from %d to %d steps in %d replays", orig, len(ms), tries)}
				if err := e.WriteReplay(path, rf); err != nil {
					res.HarnessErr = "write replay: " + err.Error()
				}
				res.Replay = path
				res.Violation = mv
			}
		}
		res.Steps = nil // keep the line small
		enc.Encode(wo)
		out.Flush()
	}
	return 0
}

// ---------------------------------------------------------------- replay

func cmdReplay(args []string) int {
	fs := flag.NewFlagSet("replay", flag.ExitOnError)
	file := fs.String("file", "", "")
	quiet := fs.Bool("quiet", false, "")
	fs.Parse(args)
	rf, err := e.ReadReplay(*file)
	if err != nil {
		fmt.Fprintln(os.Stderr, "replay:", err)
		return 2
	}
	p := profile(rf.Property)
	res := e.RunReplay(p, rf.Config, rf.Steps)
	if res.HarnessErr != "" {
		fmt.Fprintln(os.Stderr, "replay: harness error:", res.HarnessErr)
		return 2
	}
	if res.Violation == nil {
		if !*quiet {
			fmt.Printf("replay of %s: no violation (property held on this schedule), trace=%s\n", *file, res.TraceHash)
		}
		return 0
	}
	b, _ := json.Marshal(res.Violation)
	fmt.Printf("REPLAY-RESULT %s\n", b)
	if rf.Violation != nil && (rf.Violation.Signature != res.Violation.Signature || rf.Violation.Oracle != res.Violation.Oracle) {
		fmt.Printf("replay of %s: a different violation than recorded (%s vs %s)\n", *file, res.Violation.Signature, rf.Violation.Signature)
		return 3
	}
	if rf.Violation != nil && rf.Violation.TraceHash != "" && rf.Violation.TraceHash != res.Violation.TraceHash {
		fmt.Printf("replay of %s: same violation, but trace hash differs (%s vs %s)\n", *file, res.Violation.TraceHash, rf.Violation.TraceHash)
		return 4
	}
	if !*quiet {
		fmt.Printf("replay of %s reproduces: %s\n  %s\n", *file, res.Violation.Signature, res.Violation.Detail)
	}
	return 1
}

// ---------------------------------------------------------------- selftest

func cmdSelftest(args []string) int {
	fs := flag.NewFlagSet("selftest", flag.ExitOnError)
	prop := fs.String("prop", "", "")
	tier := fs.String("tier", "quick", "")
	seed := fs.Uint64("seed", 1, "")
	n := fs.Int("n", 4, "")
	fs.Parse(args)
	self, _ := os.Executable()
	bad := 0
	for i := 0; i < *n; i++ {
		var hashes []string
		for _, procs := range []string{"1", "4", "16"} {
			cmd := exec.Command(self, "worker", "-prop", *prop, "-tier", *tier, "-seed", fmt.Sprint(*seed), "-from", fmt.Sprint(i), "-to", fmt.Sprint(i+1), "-shrink", "0")
			cmd.Env = append(os.Environ(), "GOMAXPROCS="+procs, "HAQQSIM_OUT_FD=3")
			rd, wr, _ := os.Pipe()
			cmd.ExtraFiles = []*os.File{wr}
			if err := cmd.Start(); err != nil {
				fmt.Fprintln(os.Stderr, "selftest worker failed:", err)
				return 2
			}
			wr.Close()
			b, _ := io.ReadAll(rd)
			if err := cmd.Wait(); err != nil {
				fmt.Fprintln(os.Stderr, "selftest worker failed:", err)
				return 2
			}
			var wo workerOut
			if err := json.Unmarshal(b, &wo); err != nil {
				fmt.Fprintln(os.Stderr, "selftest: bad worker output:", err, string(b))
				return 2
			}
			hashes = append(hashes, wo.TraceHash+"/"+wo.RunSig)
		}
		ok := hashes[0] == hashes[1] && hashes[1] == hashes[2]
		fmt.Printf("selftest %s seed=%d run=%d: %v deterministic=%v\n", *prop, *seed, i, hashes, ok)
		if !ok {
			bad++
		}
	}
	if bad > 0 {
		fmt.Printf("SELFTEST-FAILED %d of %d runs were not reproducible\n", bad, *n)
		return 2
	}
	return 0
}

// ---------------------------------------------------------------- orchestrator

type tierCfg struct {
	Runs    uint64
	BudgetS int64
	ShrinkS int
}

func tierOf(prop, tier string) tierCfg {
	t := tierCfg{Runs: 96, BudgetS: 240, ShrinkS: 60}
	if tier == "thorough" {
		t = tierCfg{Runs: 1600, BudgetS: 2400, ShrinkS: 600}
	}
	if pr, ok := props.Registry[prop]; ok {
		if tp, ok := pr().(interface {
			Tier(string) (uint64, int64)
		}); ok {
			t.Runs, t.BudgetS = tp.Tier(tier)
		}
	}
	if v := os.Getenv("VERIF_RUNS"); v != "" {
		if n, err := strconv.ParseUint(v, 10, 64); err == nil {
			t.Runs = n
		}
	}
	if v := os.Getenv("VERIF_BUDGET_S"); v != "" {
		if n, err := strconv.ParseInt(v, 10, 64); err == nil {
			t.BudgetS = n
		}
	}
	return t
}

func cmdRun(args []string) int {
	fs := flag.NewFlagSet("run", flag.ExitOnError)
	prop := fs.String("prop", "", "")
	tier := fs.String("tier", "quick", "")
	seed := fs.Uint64("seed", 1, "")
	workers := fs.Int("workers", 0, "")
	fs.Parse(args)
	if *workers == 0 {
		*workers = runtime.NumCPU()
	}
	p := profile(*prop)
	tc := tierOf(*prop, *tier)
	t0 := time.Now()
	self, _ := os.Executable()
	known := loadFindings(*prop)

	fmt.Printf("haqqsim property=%s tier=%s VERIF_SEED=%d runs=%d workers=%d budget=%ds\n", *prop, *tier, *seed, tc.Runs, *workers, tc.BudgetS)

	// 1. known findings: replay each listed open finding first. A finding that
	// reproduces is reported as KNOWN-FINDING; one that no longer reproduces is noted.
	knownSeen := map[string]int{}
	regressed := 0
	for _, k := range known {
		if k.Status == "fixed" && k.Replay != "" {
			// regression guard: the schedule of a repaired defect must stay clean
			path := filepath.Join(verifDir, k.Replay)
			cmd := exec.Command(self, "replay", "-file", path, "-quiet")
			cmd.Env = os.Environ()
			outb, _ := cmd.CombinedOutput()
			switch code := cmd.ProcessState.ExitCode(); code {
			case 0:
			case 1, 3, 4:
				fmt.Printf("violation: the repaired defect %q is back (its recorded schedule fails again)\n  %s\n", k.Signature, lastLine(string(outb)))
				fmt.Printf("VIOLATION property=%s replay=%s\n", *prop, path)
				regressed++
			default:
				fmt.Printf("HARNESS-TROUBLE: replaying %s: exit %d: %s\n", k.Replay, code, lastLine(string(outb)))
				return 2
			}
			continue
		}
		if k.Status != "open" || k.Replay == "" {
			continue
		}
		path := filepath.Join(verifDir, k.Replay)
		cmd := exec.Command(self, "replay", "-file", path, "-quiet")
		cmd.Env = os.Environ()
		outb, _ := cmd.CombinedOutput()
		code := cmd.ProcessState.ExitCode()
		if code == 1 {
			knownSeen[k.Signature]++
		} else if code == 2 {
			fmt.Printf("harness trouble replaying known finding %s: %s\n", k.Replay, strings.TrimSpace(string(outb)))
			return 2
		} else {
			fmt.Printf("NOTE: listed finding %q no longer reproduces from %s (exit %d)\n", k.Signature, k.Replay, code)
		}
	}

	// 2. the batch
	deadline := time.Now().Add(time.Duration(tc.BudgetS) * time.Second).Unix()
	var mu sync.Mutex
	var results []workerOut
	var wg sync.WaitGroup
	harness := []string{}
	for i := 0; i < *workers; i++ {
		wg.Add(1)
		go func(i int) {
			defer wg.Done()
			// one OS process per run: a run can never be influenced by process-global
			// state left behind by an earlier run (one seed = one repeatable execution)
			for run := uint64(i); run < tc.Runs; run += uint64(*workers) {
				if time.Now().Unix() > deadline {
					break
				}
				cmd := exec.Command(self, "worker", "-prop", *prop, "-tier", *tier, "-seed", fmt.Sprint(*seed),
					"-from", fmt.Sprint(run), "-to", fmt.Sprint(run+1), "-shrink", fmt.Sprint(tc.ShrinkS))
				cmd.Env = append(os.Environ(), "GOMAXPROCS=2", "HAQQSIM_OUT_FD=3")
				so, wr, err := os.Pipe()
				if err != nil {
					mu.Lock()
					harness = append(harness, err.Error())
					mu.Unlock()
					return
				}
				cmd.ExtraFiles = []*os.File{wr}
				if os.Getenv("HAQQSIM_DEBUG") != "" {
					cmd.Stderr = os.Stderr
				}
				if err := cmd.Start(); err != nil {
					mu.Lock()
					harness = append(harness, err.Error())
					mu.Unlock()
					wr.Close()
					so.Close()
					return
				}
				wr.Close()
				sc := bufio.NewScanner(so)
				sc.Buffer(make([]byte, 1<<24), 1<<24)
				got := false
				for sc.Scan() {
					var wo workerOut
					if err := json.Unmarshal(sc.Bytes(), &wo); err != nil {
						mu.Lock()
						harness = append(harness, "bad worker line: "+err.Error())
						mu.Unlock()
						continue
					}
					got = true
					mu.Lock()
					results = append(results, wo)
					mu.Unlock()
				}
				so.Close()
				if err := cmd.Wait(); err != nil || !got {
					mu.Lock()
					harness = append(harness, fmt.Sprintf("run %d: worker process failed: %v", run, err))
					mu.Unlock()
				}
			}
		}(i)
	}
	wg.Wait()
	sort.Slice(results, func(i, j int) bool { return results[i].Run < results[j].Run })

	// 3. aggregate
	agg := aggregate(results)
	var newViol []workerOut
	for _, r := range results {
		if r.HarnessErr != "" {
			harness = append(harness, fmt.Sprintf("run %d: %s", r.Run, r.HarnessErr))
		}
		if r.Violation == nil {
			continue
		}
		if r.Known != "" {
			knownSeen[r.Known]++
			continue
		}
		newViol = append(newViol, r)
	}

	// 4. confirm each new violation by replaying its minimised file in a fresh process
	exit := 0
	if regressed > 0 {
		exit = 1
	}
	confirmed := 0
	reported := map[string]bool{}
	for _, r := range newViol {
		if reported[r.Violation.Signature] {
			continue
		}
		cmd := exec.Command(self, "replay", "-file", r.Replay, "-quiet")
		cmd.Env = os.Environ()
		outb, _ := cmd.CombinedOutput()
		code := cmd.ProcessState.ExitCode()
		if code == 1 {
			reported[r.Violation.Signature] = true
			confirmed++
			fmt.Printf("violation: oracle=%s signature=%s\n  %s\n  (seed=%d run=%d, minimised from %d steps, replay reproduces in a fresh process)\n",
				r.Violation.Oracle, r.Violation.Signature, r.Violation.Detail, r.Seed, r.Run, r.ShrunkFrom)
			fmt.Printf("VIOLATION property=%s replay=%s\n", *prop, r.Replay)
			exit = 1
		} else if nd, ok := p.(interface{ NondeterministicApp() bool }); ok && nd.NondeterministicApp() && code == 0 {
			// C01 only: the application itself may be the nondeterministic party (Go map order)
			reported[r.Violation.Signature] = true
			confirmed++
			fmt.Printf("violation (application-side nondeterminism; replay is probabilistic): %s\n  %s\n", r.Violation.Signature, r.Violation.Detail)
			fmt.Printf("VIOLATION property=%s replay=%s\n", *prop, r.Replay)
			exit = 1
		} else {
			harness = append(harness, fmt.Sprintf("run %d: violation %s did not reproduce from %s (exit %d): %s", r.Run, r.Violation.Signature, r.Replay, code, strings.TrimSpace(string(outb))))
		}
	}

	for _, k := range known {
		if k.Status == "open" {
			if knownSeen[k.Signature] > 0 {
				fmt.Printf("KNOWN-FINDING: property=%s %s [signature %s, observed %d times in this run]\n", *prop, k.What, k.Signature, knownSeen[k.Signature])
			}
		}
	}

	// 5. mandatory probes / vacuity
	vacuous := []string{}
	if mp, ok := p.(interface{ MandatoryProbes() []string }); ok && exit == 0 {
		for _, name := range mp.MandatoryProbes() {
			if agg.Probes[name] == 0 {
				vacuous = append(vacuous, name)
			}
		}
	}
	wall := time.Since(t0).Seconds()
	writeEvidence(p, *prop, *tier, *seed, agg, results, knownSeen, confirmed, wall)

	fmt.Printf("runs=%d blocks=%d txs=%d (ok %d) sim_time=%.0fs oracle_evals=%d forks=%d distinct_run_signatures=%d wall=%.1fs\n",
		agg.Runs, agg.Blocks, agg.Txs, agg.TxsOK, agg.SimTimeS, agg.Oracle, agg.Forks, len(agg.RunSigs), wall)
	fmt.Printf("faults fired: %s\nprobes: %s\n", fmtMap(agg.Faults), fmtMap(agg.Probes))
	if exit == 1 {
		return 1
	}
	if len(harness) > 0 {
		for i, h := range harness {
			if i < 10 {
				fmt.Println("HARNESS-TROUBLE:", h)
			}
		}
		return 2
	}
	if agg.Runs == 0 {
		fmt.Println("HARNESS-TROUBLE: no run completed")
		return 2
	}
	if len(vacuous) > 0 {
		fmt.Println("HARNESS-TROUBLE: vacuous batch, mandatory probes never fired:", vacuous)
		return 2
	}
	fmt.Printf("OK property=%s held on everything explored\n", *prop)
	return 0
}

type aggT struct {
	Runs, Blocks, Txs, TxsOK, Oracle, Forks int
	SimTimeS                                float64
	Faults, Probes, Ops, OpsOK              map[string]int
	States                                  map[string]struct{}
	RunSigs                                 map[string]struct{}
	NontrivialSigs                          map[string]struct{}
}

func aggregate(rs []workerOut) *aggT {
	a := &aggT{Faults: map[string]int{}, Probes: map[string]int{}, Ops: map[string]int{}, OpsOK: map[string]int{},
		States: map[string]struct{}{}, RunSigs: map[string]struct{}{}, NontrivialSigs: map[string]struct{}{}}
	for _, r := range rs {
		a.Runs++
		a.Blocks += r.Blocks
		a.Txs += r.Txs
		a.TxsOK += r.TxsOK
		a.Oracle += r.Oracle
		a.Forks += r.Forks
		a.SimTimeS += r.SimTimeS
		for k, v := range r.Faults {
			a.Faults[k] += v
		}
		np := 0
		for k, v := range r.Probes {
			a.Probes[k] += v
			np += v
		}
		for k, v := range r.Ops {
			a.Ops[k] += v
		}
		for k, v := range r.OpsOK {
			a.OpsOK[k] += v
		}
		for _, s := range r.States {
			a.States[s] = struct{}{}
		}
		a.RunSigs[r.RunSig] = struct{}{}
		if np > 0 && r.Oracle > 0 {
			a.NontrivialSigs[r.RunSig] = struct{}{}
		}
	}
	return a
}

func lastLine(s string) string {
	ls := strings.Split(strings.TrimSpace(s), "\n")
	for i := len(ls) - 1; i >= 0; i-- {
		if strings.HasPrefix(ls[i], "REPLAY-RESULT") {
			return ls[i]
		}
	}
	if len(ls) == 0 {
		return ""
	}
	l := ls[len(ls)-1]
	if len(l) > 400 {
		l = l[:400]
	}
	return l
}

func fmtMap(m map[string]int) string {
	var s []string
	for _, k := range e.SortedKeys(m) {
		s = append(s, fmt.Sprintf("%s=%d", k, m[k]))
	}
	if len(s) == 0 {
		return "(none)"
	}
	return strings.Join(s, " ")
}

func writeEvidence(p e.Profile, prop, tier string, seed uint64, a *aggT, rs []workerOut, known map[string]int, violations int, wall float64) {
	level := "exploration"
	if lp, ok := p.(interface{ Level() string }); ok {
		level = lp.Level()
	}
	rule := "seeded generation: run i of VERIF_SEED draws a swarm configuration and a schedule of client operations, clock steps, validator/replica/transport faults from PRNG streams H(seed,i,stream); a run is non-trivial when at least one of the property's reach probes fired and at least one oracle was evaluated; distinct = distinct run signatures (hash of the sequence of (operation kind, outcome class, fault kind))"
	if rp, ok := p.(interface{ Rule() string }); ok {
		rule = rp.Rule() + " | " + rule
	}
	var samples []any
	for _, r := range rs {
		if len(r.SampleHead) > 0 && len(samples) < 3 {
			samples = append(samples, map[string]any{"seed": r.Seed, "run": r.Run, "config_flags": r.Config.Flags, "first_steps": r.SampleHead, "trace_hash": r.TraceHash})
		}
	}
	if len(samples) == 0 {
		samples = append(samples, "no run completed")
	}
	perHour := 0.0
	if wall > 0 {
		perHour = float64(a.Runs) / wall * 3600
	}
	comp := map[string]any{
		"real": []string{"app.Haqq (BaseApp, all keepers, ante chains, EVM + precompiles, IBC core/transfer)", "rootmulti+IAVL store over SimDB", "tx encoding and signing (ethsecp256k1, EIP-155, EIP-712)"},
		"stub": []string{"CometBFT consensus/p2p/mempool (scheduler builds blocks and calls ABCI)", "clients, validators' votes and evidence (seeded actors)", "no IBC counter-party in this check (channels exist only in the two-chain runs of C10)"},
	}
	if cp, ok := p.(interface{ Components() map[string]any }); ok {
		comp = cp.Components()
	}
	cov := map[string]any{
		"evaluations":             a.Runs,
		"distinct_nontrivial":     len(a.NontrivialSigs),
		"rule":                    rule,
		"samples":                 samples,
		"runs_per_hour":           perHour,
		"seeds":                   []uint64{seed},
		"blocks":                  a.Blocks,
		"txs":                     a.Txs,
		"txs_ok":                  a.TxsOK,
		"sim_time_covered_s":      a.SimTimeS,
		"faults_fired":            a.Faults,
		"probes":                  a.Probes,
		"ops":                     a.Ops,
		"ops_ok":                  a.OpsOK,
		"abstract_states":         len(a.States),
		"forks":                   a.Forks,
		"oracle_evaluations":      a.Oracle,
		"distinct_run_signatures": len(a.RunSigs),
		"components":              comp,
		"known_findings_hit":      known,
	}
	ev := map[string]any{
		"property_id": prop, "tier": tier, "seed": seed, "level": level, "coverage": cov,
		"assumptions": []string{
			"CometBFT is replaced by a scheduler that calls ABCI in CometBFT's order; properties of consensus itself are out of scope",
			"sampling, not enumeration: a clean batch is evidence, not proof",
			"the SDK/IAVL/go-ethereum dependencies are exercised as they are, but faults are injected only at the seams listed in DESIGN.md §2.2",
		},
		"wall_s": wall, "violations": violations,
	}
	os.MkdirAll(filepath.Join(verifDir, "evidence"), 0o755)
	b, _ := json.MarshalIndent(ev, "", " ")
	os.WriteFile(filepath.Join(verifDir, "evidence", prop+".json"), b, 0o644)
}
