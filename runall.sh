#!/bin/bash
# Runs the quick tier of every claimed check (as listed in MANIFEST.json) and prints one line per check.
cd "$(dirname "$0")"
./check build >/dev/null || { echo "build failed"; exit 2; }
rc=0
for p in $(python3 -c "import json;print(' '.join(c['property_id'] for c in json.load(open('MANIFEST.json'))['checks']))"); do
  t0=$(date +%s)
  ./check "$p" "${1:-quick}" > "/tmp/runall_${RUNALL_TAG:-}$p.log" 2>&1; c=$?
  echo "$p exit=$c $(( $(date +%s) - t0 ))s known=$(grep -c '^KNOWN-FINDING' /tmp/runall_${RUNALL_TAG:-}$p.log) $(tail -1 /tmp/runall_${RUNALL_TAG:-}$p.log | cut -c1-100)"
  [ $c != 0 ] && rc=1
done
exit $rc
