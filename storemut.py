#!/usr/bin/env python3
"""storemut.py <prop> <k> <needs> <detected-by> [notes] — files a confirmed seeded change under /verif/seeded/<prop>-<k>/"""
import json, os, shutil, sys, re
prop, k, needs, detected = sys.argv[1:5]
notes = sys.argv[5] if len(sys.argv) > 5 else ""
src = f"/tmp/wt-{prop}/MUTATION_{k}"
dst = f"/verif/seeded/{prop}-{k}"
os.makedirs(dst, exist_ok=True)
for f in os.listdir(src):
    if f.endswith(('.diff', '.go', '.md')):
        shutil.copy(os.path.join(src, f), dst)
# demo files must not be picked up by `go` tooling inside /verif
for f in os.listdir(dst):
    if f.endswith('.go'):
        os.rename(os.path.join(dst, f), os.path.join(dst, f + '.txt'))
conf = open(f"/tmp/confirm-{prop}-{k}.log").read() if os.path.exists(f"/tmp/confirm-{prop}-{k}.log") else ""
readme = open(os.path.join(src, 'README.md')).read()
meta = {
    "property": prop,
    "written_by": "independent sub-agent given only the property text and a scratch worktree",
    "breaks": re.sub(r"\s+", " ", readme.strip().split("\n\n")[0])[:600],
    "needs_to_manifest": needs,
    "confirmed_by_me": {
        "what_i_ran": "in the scratch worktree: demo without the patch (passes), git apply patch.diff, go build ./... (ok), demo with the patch (fails), existing tests of the touched packages and dependants with the patch (pass)",
        "log_excerpt": [l for l in conf.splitlines() if l.startswith(('==', '--', 'exit=', 'FAIL', 'ok'))][:24],
    },
    "checks_run_against_it": detected,
    "notes": notes,
    "demo": "demo_test.go.txt (copy instructions in README.md)",
}
json.dump(meta, open(os.path.join(dst, 'meta.json'), 'w'), indent=1)
print("stored", dst)
