#!/usr/bin/env python3
"""Regenerates MANIFEST.json from the table below (kept in one place so that the
manifest is always valid JSON and consistent with the checks that exist)."""
import json, os
HERE = os.path.dirname(os.path.abspath(__file__))

CHECKS = {
 # id: (level, technique, level text, level note, design ref)
 "C12": ("exploration",
         "deterministic simulation: seeded fund/transfer-ownership histories (incl. sender = recipient, ratios, multi-denom) with crash-restart faults against the real app; per-message delta oracle + ledger invariant after every tx; ddmin-minimised replay files",
         "Seeded search over DAO operation histories on a real app.Haqq driven through ABCI; after every transaction the full DAO ledger is read back and compared with an independently computed expected ledger and with the three-way equation sum(holders)=total=bank(module) and the holders index. Sampling, not enumeration.",
         "Trusts the bank keeper's own balances and the harness' big-integer arithmetic; CometBFT is a stub.",
         "DESIGN.md §4 C12"),
}

CHECKS.update({
 "C01": ("exploration",
         "deterministic simulation: 3-4 real replicas fed one seeded block history (all op families), differing in node-local config, restarts, stalls/catch-up, late join from genesis and interleaved non-consensus traffic; comparator on every DeliverTx / EndBlock / Commit",
         "Seeded search over mixed block histories executed on several independently constructed app.Haqq replicas that differ in everything the statement says must not matter (appOpts incl. tracer/pruning/min-gas-prices/max-tx-gas-wanted/inv-check-period, crash-restart points, lagging and late-joining nodes, CheckTx/Simulate/query/eth_call/export traffic, Go map order), including blocks in which a governance-scheduled software upgrade is applied in-process. Every tx result (code, codespace, data, gas wanted/used), validator update, consensus-param update and app hash is compared after each ABCI call; on divergence the differing stores are named.",
         "Go map iteration order cannot be seeded (divergence from it shows with probability 1-(1/2)^(R-1) per occurrence); wall-clock seam (testing/synctest) not built at this commit; CometBFT stubbed.",
         "DESIGN.md §4 C01"),
 "C15": ("exploration",
         "deterministic simulation: seeded mixed histories (staking, slashing evidence/downtime, distribution, gov, authz, vesting, liquid vesting, DAO, ERC20, EVM) with clock jumps and byzantine-proposer txs; every crisis invariant route evaluated on the committed state after every block; 30 % of the runs are contract-program runs (FIC call trees touching module accounts, precompile calls incl. createValidator, attached value, caught failures) under the same oracle",
         "After every block of every sampled history all invariant routes registered with the crisis keeper (bank, staking, distribution, gov) are evaluated on the committed state; a broken route is the violation, carrying the invariant's own message.",
         "Trusts the SDK invariants themselves as the statement of the accounting rules; sampling only.",
         "DESIGN.md §4 C15"),
 "C20": ("fault_enumeration",
         "deterministic simulation with crash injection: replica E is crashed and re-opened from its simulated disk at EVERY block boundary of each sampled history, replica M at seeded random points incl. mid-block (with full redelivery), replica K never stops; Info()/query-set/tx-result/app-hash comparison + no-DB-write-outside-Commit counter",
         "Crash-point enumeration inside each sampled history (every boundary) x seeded exploration of histories. After each restart the node's reported height/app hash, a fixed set of 18 gRPC queries plus per-account queries, and all following tx results, validator updates and app hashes are compared with the never-stopped replica; the simulated disk counts writes per ABCI phase to show nothing becomes durable outside Commit.",
         "Torn writes inside rootmulti.Commit and disk errors are not injected (SDK/IAVL code outside the repo; the property quantifies over block boundaries). Software-upgrade plans are applied in-process for the handlers that are safe on a state created by this binary (v1.8.2, v1.8.1, v1.7.8, v1.7.7, and v1.8.0 after funding the DAO); store upgrades read from upgrade-info.json on a real disk are not exercised.",
         "DESIGN.md §4 C20"),
})

CHECKS.update({
 "C13": ("exploration",
         "deterministic simulation: seeded block-timestamp schedules (1 ms steps, multi-day gaps, jumps to +-1 ms / +-1 s around 1 Jan of leap, non-leap and century years), bonded stake moved by delegations and slashing, governance changing coefficient / toggling minting, cap drawn at/just above/below supply; per-block independent 18-decimal fixed-point reference (accept set over all evaluation orders), cap and activation rules",
         "For every block of every sampled history the minted amount (supply delta across EndBlock = fee-collector delta) must be a member of the finite set of values the statement's formula can take in 18-decimal fixed point (10 evaluation orders + exact rational), with the cap remainder rule, zero while disabled and zero in the first block after every activation; supply never lifted above the cap.",
         "Reads bonded tokens, parameters and balances through the application's own keepers; the statement leaves the evaluation order open, so the oracle accepts any order (a wrong year length, truncation or coefficient scale lands outside the set).",
         "DESIGN.md §4 C13"),
 "C17": ("exploration",
         "deterministic simulation: seeded load around the gas target (exact 21000-gas transfers, over-declared gas, ante failures, byzantine overfilled blocks), governance parameter changes, crash-restart between blocks; reference EIP-1559 step and gas-figure max(gasWanted x multiplier, gasUsed) computed from observed per-tx outcomes for every block",
         "For every block executed with the base fee enabled the stored gas figure and the next block's base fee must equal the reference computed from observed transaction outcomes (which txs passed the ante handler, their declared and used gas) with integer divisions exactly as in the statement; lower bound by the minimum gas price.",
         "Whole-domain monotonicity is implied only through equality with the (monotone) reference at sampled points; fractional min gas prices: floor or ceiling accepted as the bound.",
         "DESIGN.md §4 C17"),
})

CHECKS.update({
 "C14": ("exploration",
         "deterministic simulation with validator-fault injection (duplicate-vote evidence at past heights, downtime until the signing window trips, both at once, with unbondings/redelegations in flight) and proposals ending vetoed/below quorum/expired under drawn burn flags; fault-free twin fork of every faulty BeginBlock + direct accounting around every gov EndBlock + negative control for other modules' burns",
         "Every BeginBlock that carries validator faults is executed twice from a forked disk: with the faults and without (same header, all validators signing); supply must be equal and the coins missing from the staking pools must sit in the distribution module and be credited to the community pool (exactly: slashed + what the slashing hooks moved from outstanding rewards). Across every EndBlock supply is unchanged and coins leaving the gov module equal refunds (bank events) plus community-pool growth, with the distribution module holding them; a liquid-vesting redeem must still reduce supply.",
         "Reward withdrawals triggered by slashing hooks are measured (account balance and outstanding-reward deltas between the twins), not modelled.",
         "DESIGN.md §4 C14"),
 "C19": ("exploration",
         "deterministic simulation: mixed seeded histories; at seeded block boundaries the node's disk is forked, exported, and a fresh application is initialised from the export (InitChain at the next height); re-export comparison section by section, query-set comparison, and two blocks of identical traffic on original fork and import followed by another export comparison",
         "export(import(export(S))) must equal export(S) as canonical JSON for every module section; a query set over the Haqq modules (evm account/code/storage/params, feemarket, erc20, vesting balances, liquid vesting, DAO, coinomics, epochs, bank) must answer identically after one block on both; after two identical blocks both must export the same document and have produced the same result codes.",
         "Normalised as height-derived or SDK-internal and therefore not compared: the 09-localhost IBC client's latest_height and the staking unbonding ids (hook identifiers whose counter the SDK genesis does not carry). States with no bonded validator are skipped (a real chain would have halted).",
         "DESIGN.md §4 C19"),
})

CHECKS.update({
 "C03": ("exploration",
         "deterministic simulation with a faulty transport between honest signers and the chain: duplication (same block / later block / after node restart), reordering (future sequence first), delay, loss, single-field corruption in flight with the signature left as is (13 Ethereum fields, 16 Cosmos/EIP-712 fields), cross-chain replay, unprotected signatures, byzantine proposer (no CheckTx); exactly-once/authenticity oracle over the delivered history",
         "Every delivered byte string is attributed to an honestly signed element (account, signed sequence, chain id) plus the transport fault applied; a fingerprint of all known accounts (sequence, balance) and the fee collector is taken around every DeliverTx. A replayed, corrupted, foreign-chain or unprotected variant must have no effect; an accepted element must carry exactly the account's current sequence and bump it by one; at the end every account's sequence advance equals the number of its accepted elements.",
         "A corrupted Ethereum tx recovers to a different (random) sender by construction of ECDSA recovery, so for that route the oracle requires 'no known account affected' rather than a non-zero code; the sign mode of EIP-712-signed Cosmos txs is not part of the signed typed data and is not counted as a signed field.",
         "DESIGN.md §4 C03"),
 "C07": ("exploration",
         "deterministic simulation: seeded Ethereum (3 types, multi-message, revert/out-of-gas/refund/creation targets) and Cosmos txs with prices drawn around min-gas-price and base fee (+-1), governance changing fee-market params mid-run, delayed inclusion against a moved base fee, byzantine proposer, restart; per-tx money-flow identity against an independently computed effective price",
         "Around every DeliverTx the sender's and the fee collector's balances and the account sequence are read. A tx below the fee floor or with a fee cap below the base fee must have no effect; an executed Ethereum tx must satisfy floor(multiplier x limit) <= gasUsed <= limit, exact gas for plain transfers, sender delta = fee-collector delta (+ value) = gasUsed x effectiveGasPrice with the price recomputed from (type, cap, tip, base fee), and DeliverTx GasUsed = sum of message gas.",
         "Senders hold no delegations (the claim-rewards-to-pay-fees path is not part of the exact identity); with the base fee disabled both readings of a dynamic-fee tx's effective price are accepted.",
         "DESIGN.md §4 C07"),
})

CHECKS.update({
 "C06": ("exploration",
         "deterministic simulation with a byzantine client and proposer: seeded message trees nesting MsgExec/MsgGrant to depth <= 9 and width <= 4 with a blocked message at a seeded position, on every route selector (plain, dynamic-fee, Web3/EIP-712, Ethereum) and with seeded extension-option lists (registered options in every order and an unregistered one); correctly signed, fee paid, delivered without CheckTx; independent tree classifier + no-effect / no-ethereum_tx-event oracle",
         "An independent walker classifies each generated tx from its own description (never from the ante handler); a tx in the forbidden class must return a non-zero code, leave the fingerprint of all known accounts and the fee collector unchanged and emit no ethereum_tx event; ethereum_tx events may only appear on the Ethereum route. Positive controls (allowed nested exec, plain eth tx) must succeed so that the batch is not vacuous.",
         "The property is a function of one transaction: the simulator contributes the adversarial actor and the end-to-end observable, not schedule exploration (stated caveat, DESIGN.md §4 C06). Trees deeper than the implementation's nesting cap are rejected by it, which the oracle accepts (one-sided).",
         "DESIGN.md §4 C06"),
})

CHECKS.update({
 "C08": ("exploration",
         "deterministic simulation: funders create/merge/convert/claw back vesting accounts with seeded schedules; vesting accounts attempt every debit path of the op library (bank send and multi-send, EVM value transfer, staking precompile called by the account, gov deposit, DAO fund, community-pool fund, liquidate, fees, delegate by message and by authz exec, convert-with-stake; in a sixth of the runs IBC transfers of the native coin by MsgTransfer and through the ICS-20 precompile on the two-chain world, with the relayer delivering, dropping until timeout and refunding) while the clock jumps to schedule edges +-1 s, validators are slashed, the node restarts; independent event-list reference of the locked amount evaluated at block time after every successful tx",
         "After every successful transaction (and every block) each vesting account's balance must be at least max(original - unlockedVested - trackedDelegated, unvested) computed by a reference that sums independent release events; after a delegation-type transaction the delegated amount must not exceed balance minus unvested.",
         "trackedDelegated is read from the stored account (it is the account's own bookkeeping); contract-internal transfers (a contract forwarding the account's value) are covered only as plain value transfers; native denomination only. In the two-chain runs the locked amount is a constant (100 ISLM locked for ten million seconds, fully vested).",
         "DESIGN.md §4 C08"),
 "C09": ("exploration",
         "deterministic simulation over create/merge/convert/clawback/funder-update histories at seeded block times; after every vesting operation the stored account is compared with an independent event-list reference (union of grants, clawback = truncate + cap) at swept read times (every event instant -1/0/+1, block time, far future)",
         "Pointwise equality of vested(t) and unlocked(t) between the stored account and the reference at every swept instant after all grants have started, monotonicity, vested+unvested = locked+unlocked = original, Validate(); clawback only by the recorded funder, destination receives exactly the reference unvested amount; convert-back only when nothing is locked or unvested.",
         "Equality is established for schedules reached by simulated histories, not for all integers; the one instant the statement leaves open (zero-length period read exactly at its grant's start) is not compared.",
         "DESIGN.md §4 C09"),
 "C11": ("exploration",
         "deterministic simulation: fully vested but locked accounts liquidate (to self/others) seeded amounts at block times inside/at/between periods; holders transfer, convert to/from ERC20, redeem partially and fully into fresh, plain and existing vesting accounts; clock jumps to period edges, duplicate/reordered ops, restart; per-period split identity, backing invariant and no-early-unlock inequality from pre/post state",
         "Per liquidate: for every upcoming period left + moved = original, none negative, past periods untouched, moved total = amount, liquid schedule instants = account instants. After every tx and block: module native balance = sum of liquid supplies, every denom's periods sum to its supply. Per redeem: recipient receives exactly the amount and at every swept instant its locked-up amount grows by at least the share of the liquid token still locked then.",
         "The proportional split rule is not prescribed by the statement, so the model re-synchronises from the stored schedule after verifying the identity.",
         "DESIGN.md §4 C11"),
})

CHECKS.update({
 "C02": ("exploration",
         "deterministic simulation with hostile contracts as fault injectors: seeded FIC programs (call trees as data: nested calls, attached value at any edge, try/catch, REVERT/INVALID/out-of-gas by drawn stipends) hitting the staking and distribution precompiles with every (signer, caller, named account) relationship and dirty-set choice; total-supply conservation around every Ethereum tx on the real app",
         "Around every Ethereum transaction (program through a frame-interpreter contract, or direct EOA->precompile call) the bank's total supply of the native coin and all actors' balances are read; supply must not change, and a transaction that failed must move no funds. Violations are classified by the smallest discriminating facts (failed frame containing a precompile call; balance moved for a non-caller while dirty in the EVM journal) so that the two known root causes do not mask others; three run regimes (no precompile calls / no failing frames / everything).",
         "ICS-20 and the erc20/werc20 precompiles are not exercised (no IBC channel in this profile); staking rewards exist in 60 % of the runs (coinomics on; fees are zero), contracts hold stake themselves in half of them; per-account attribution relies on supply + actor balances, not on bank events.",
         "DESIGN.md §4 C02"),
 "C04": ("exploration",
         "deterministic simulation: FIC programs and direct calls exercising staking/distribution precompile methods under every identity relation, with a seeded grant life cycle (approve / increase / decrease / revoke, limited and unlimited, several message types; staking, distribution and ICS-20 precompiles) and spends through contracts incl. re-entrancy and frame failures; non-interference + grant-gate + allowance-arithmetic oracle from pre/post state",
         "For every account that is neither the signer nor the immediate caller of a committed state-changing precompile call: delegations, unbondings, redelegations, withdraw address and grants-as-granter unchanged and balance not decreased. A staking spend committed by a contract requires a grant from the signer to that contract in the pre-state covering type and amount; and, when the grant names validators, the validator the message is checked against; afterwards a limited grant is reduced by exactly the amounts used (deleted at zero, never exceeded); approve/increase/decrease/revoke set exactly the stated allowance.",
         "Effects that survive a failed frame (finding C05-001) are attributed to C05 and skipped here; A tenth of the runs are ICS-20 runs on the two-chain world: allocation life cycle (approve / increase / decrease / revoke per channel, denomination limits, receiver allow lists), transfers by contracts for the signer, for themselves and for third parties, with the same authority, allowance-arithmetic and non-interference oracles; clock jumps of more than a year make every allowance expire in some runs (an expired grant is no grant in the pre-state, so a spend under it is reported).",
         "DESIGN.md §4 C04"),
 "C05": ("exploration",
         "deterministic simulation with frame-failure injection: for every sampled FIC program the block boundary is forked twice; fork A runs the program, fork B runs it with every frame that failed in A replaced by a stub that fails without doing anything; per-store content, logs and outcome compared (pruned-program fork differential); regimes with disposable self-destructing contracts and with few storage keys/values (frames restore each other's and the committed values)",
         "No model of what any message does is needed: if a failed frame leaves no trace, running the program and running it with the failed frames hollowed out must commit identical stores (all but the fee market's block-gas figure) and emit the same number of logs. Fees are zero in this profile so gas cannot leak into state. Failure kinds: REVERT, INVALID, out of gas via drawn stipends (incl. inside the precompile's gas meter), STATICCALL write protection, failing precompile calls, failure in siblings and in parents caught one level higher.",
         "The hand-assembled interpreter contract is unit-tested against go-ethereum's runtime (sim/evmprog/fic_test.go); which calls ran inside a frame that died without return data is classified statically from the program.",
         "DESIGN.md §4 C05"),
})

CHECKS.update({
 "C16": ("exploration",
         "deterministic simulation: seeded staking/distribution histories with slashing, unbondings and redelegations in flight; at seeded boundaries a native-message fork and a precompile-call fork of the same disk are executed and their committed stores compared (fork differential); read-only precompile methods compared with module state at simulated states",
         "For every sampled (method, arguments incl. zero / above balance / huge / invalid validator, state) the owner's native message and the owner's direct precompile call are executed on two forks of the same block boundary: both must succeed or both fail, and the staking, distribution, slashing, authz, bank, gov, ibc/transfer/capability and Haqq module stores must be identical afterwards (fees are zero; evm/feemarket/acc ignored). Read-only methods (staking delegation, unbondingDelegation, validator, validators by status, redelegation, allowance; distribution delegationRewards, delegationTotalRewards, delegatorValidators, delegatorWithdrawAddress, validatorCommission, validatorOutstandingRewards; bank balances, totalSupply) are decoded and compared field by field with the modules' own state.",
         "createValidator is part of the differential (also for vesting accounts); ICS-20 transfer, claimRewards (no single native equivalent), redelegations pagination, validatorSlashes/DistributionInfo and supplyOf are not compared; DecCoin outputs are compared on their integer part (the ABI carries a truncated amount with precision 18). Rewards exist in 70 % of the runs (coinomics).",
         "DESIGN.md §4 C16"),
})

CHECKS.update({
 "C10": ("exploration",
         "deterministic simulation: coin-origin pairs (governance-registered coin, liquid-vesting denoms) and ERC20-origin pairs over the repository's honest, delayed-malicious and direct-balance-manipulation token artefacts; seeded MsgConvertCoin / MsgConvertERC20 / ERC20 transfer to the module address (hook) / bank MsgSend wrapper / plain transfers / holder burns / governance toggles / restarts; backing inequality after every tx and block + per-conversion delta identity. A third of the runs are two-chain runs: two real Haqq applications joined by an ICS-20 channel on ibc-go's testing light clients, the simulator as relayer (delays, reorders, duplicates, drops packets and acknowledgements until they time out, error acknowledgements, pair toggles and token pauses while packets are in flight)",
         "After every transaction and block: for every coin-origin pair ERC20 totalSupply <= coins escrowed by the module (and equal once holder burns observed by the model are added); for every ERC20-origin pair coin supply <= tokens held by the module, also against the lying token contracts. Per conversion the two sides move by exactly the requested amount or nothing moves. Two-chain runs: the backing equation of every pair on both chains after every step; per asset family, holdings on both chains in either representation plus what is in flight equals what was issued; a delivery credits exactly the packet amount, a duplicate or late delivery / acknowledgement changes nothing, a timeout or error acknowledgement refunds exactly the amount; once the relayer catches up every packet resolves and the home-chain escrow equals the vouchers on the other chain.",
         "The IBC handshake uses the repository's ibc/testing adapter (its setup transactions carry a time-seeded memo: gas and base fee of the setup differ between processes, nothing the oracles read); the two-chain runs have no crash injection; the chameleon token of the design is replaced by the repository's three compiled artefacts plus pausing the honest token; self-destructed tokens not generated.",
         "DESIGN.md §4 C10"),
})

NOT_YET = {}  # id -> reason (filled below)
NA = {
 "C18": "pure function of one input (wrap -> encode -> decode -> unwrap of one Ethereum tx): no schedule, clock, fault, crash or second party can change its result, so deterministic simulation with fault injection has nothing to decide; see DESIGN.md §4 C18",
}

def main():
    props = [json.loads(l) for l in open(os.path.join(HERE, "properties.jsonl"))]
    checks = []
    na = []
    for p in props:
        i = p["id"]
        if i in CHECKS:
            lvl, tech, text, note, ref = CHECKS[i]
            checks.append({
                "property_id": i,
                "quick_cmd": f"./check {i} quick",
                "thorough_cmd": f"./check {i} thorough",
                "evidence_file": f"evidence/{i}.json",
                "replay_cmd_template": f"./check {i} --replay {{path}}",
                "engine": "haqqsim",
                "level_claimed": {"category": lvl, "text": text, "design_ref": ref},
                "level_note": note,
                "technique": tech,
            })
        elif i in NA:
            na.append({"property_id": i, "reason": NA[i]})
        else:
            na.append({"property_id": i, "reason": NOT_YET.get(i, "not claimed yet: the simulation profile for this property is designed (DESIGN.md §4) but its check is not built/validated at this commit")})
    m = {
        "version": 1,
        "setup_cmd": "./check build",
        "hooks": {
            "guard": "verif",
            "enable": "go build -tags verif (the harness is always built with -tags verif; no hook is needed at this commit, so the tag currently selects nothing)",
            "baseline_off_cmd": "cd /repo && GOFLAGS=-mod=mod GOPROXY=off GOSUMDB=off go test -vet=off -count=1 -timeout 25m ./...",
            "source_commits": [],
            "add_only": True,
        },
        "engines": [{
            "name": "haqqsim", "path": "sim/",
            "serves_properties": sorted(CHECKS),
            "kind_free_text": "deterministic simulator: real app.Haqq replicas on simulated disks driven over ABCI by one seeded scheduler that plays clients, transport, clock, proposer/validator faults, relayer and crash/restart; explicit JSON schedules, ddmin shrinking, fresh-process replay",
        }],
        "checks": checks,
        "not_applicable": na,
        "notes": "Exit codes of every check: 0 held, 1 VIOLATION (replayed in a fresh process first), 2 build/harness trouble (never a VIOLATION line). VERIF_SEED selects the batch; VERIF_RUNS / VERIF_BUDGET_S override batch size. known_findings.jsonl lists fixed and open findings.",
    }
    json.dump(m, open(os.path.join(HERE, "MANIFEST.json"), "w"), indent=1)
    print("checks:", [c["property_id"] for c in checks], "not claimed:", [n["property_id"] for n in na])

main()
